"""Obligation bookkeeping, evidence files, VIOLATION / KNOWN-FINDING lines."""
import hashlib, json, os, sys, time

VERIF = os.path.dirname(os.path.dirname(os.path.abspath(__file__)))
EVID = os.environ.get("VERIF_EVID") or os.path.join(VERIF, "evidence")
KNOWN = os.path.join(VERIF, "known_findings.json")


class Anchor(Exception):
    """a construct the rule is anchored on is missing: fail closed"""


class Check(object):
    def __init__(self, pid, level, tier, rule_text, trusted_base=None, explanation=None):
        self.pid = pid
        self.level = level
        self.tier = tier
        self.rule_text = rule_text
        self.trusted_base = trusted_base or []
        self.explanation = explanation
        self.obs = []  # dict(rule, instance, ok, detail, nontrivial, where, key)
        self.samples = []
        self.extra = {}
        self.t0 = time.time()
        self.analysed = {"bodies": set(), "configs": set()}
        self.assumptions = []

    # -- recording
    def ob(self, rule, instance, ok, detail="", nontrivial=True, where=None, key=None, sample=None):
        key = key or "%s.%s|%s" % (self.pid, rule, instance)
        self.obs.append({"rule": rule, "instance": instance, "ok": bool(ok), "detail": detail,
                         "nontrivial": nontrivial, "where": where, "key": key})
        if sample is not None and len(self.samples) < 12:
            self.samples.append(sample)
        return bool(ok)

    def floor(self, rule, what, found, expected_min):
        """fail closed when fewer instances were found than counted on the pinned tree"""
        return self.ob(rule, "floor:" + what, found >= expected_min,
                       "found %d %s, expected at least %d" % (found, what, expected_min), nontrivial=False,
                       key="%s.%s|floor|%s" % (self.pid, rule, what))

    def body(self, key):
        self.analysed["bodies"].add(key)

    def config(self, c):
        self.analysed["configs"].add(c)

    # -- finishing
    def finish(self, replay_key=None):
        known = {"findings": [], "fixed": []}
        if os.path.exists(KNOWN):
            with open(KNOWN) as f:
                known = json.load(f)
        open_keys = {k["key"]: k for k in known.get("findings", []) if k.get("property") == self.pid and k.get("status", "open") == "open"}
        bad = [o for o in self.obs if not o["ok"]]
        viol = []
        knownhits = []
        for o in bad:
            if o["key"] in open_keys:
                knownhits.append(o)
            else:
                viol.append(o)
        os.makedirs(os.path.join(EVID, "replay"), exist_ok=True)
        lines = []
        for k in sorted({o["key"] for o in knownhits}):
            lines.append("KNOWN-FINDING: property=%s %s :: %s" % (self.pid, k, open_keys[k].get("what", "")))
        seen = set()
        for o in viol:
            if o["key"] in seen:
                continue
            seen.add(o["key"])
            h = hashlib.sha1(o["key"].encode()).hexdigest()[:12]
            path = os.path.join(EVID, "replay", "%s-%s.json" % (self.pid, h))
            with open(path, "w") as f:
                json.dump({"property": self.pid, "key": o["key"], "rule": o["rule"], "instance": o["instance"],
                           "where": o["where"], "detail": o["detail"]}, f, indent=1, default=str)
            lines.append("VIOLATION property=%s replay=%s" % (self.pid, path))
            lines.append("  %s.%s %s: %s%s" % (self.pid, o["rule"], o["instance"], o["detail"],
                                              (" at %s" % (o["where"],)) if o["where"] else ""))
        n = len(self.obs)
        nontriv = len({o["key"] for o in self.obs if o["nontrivial"]})
        cov = {
            "evaluations": n,
            "distinct_nontrivial": nontriv,
            "rule": self.rule_text,
            "samples": self.samples[:12] or [{"note": "no sample recorded"}],
            "obligations": n,
            "discharged": n - len(bad),
            "known_findings_hit": [o["key"] for o in knownhits],
            "bodies_analysed": len(self.analysed["bodies"]),
            "configurations": sorted(self.analysed["configs"]),
            "rules": sorted({o["rule"] for o in self.obs}),
            "per_rule": {r: sum(1 for o in self.obs if o["rule"] == r) for r in sorted({o["rule"] for o in self.obs})},
        }
        cov.update(self.extra)
        if self.level == "proof":
            cov["checker_cmd"] = "./check %s --tier %s" % (self.pid, self.tier)
            cov["trusted_base"] = self.trusted_base
        if self.explanation:
            cov["explanation"] = self.explanation
        ev = {
            "property_id": self.pid,
            "tier": self.tier,
            "seed": int(os.environ.get("VERIF_SEED", "0") or 0),
            "level": self.level,
            "coverage": cov,
            "assumptions": self.assumptions + self.trusted_base,
            "wall_s": round(time.time() - self.t0, 3),
            "violations": len(seen),
        }
        with open(os.path.join(EVID, "%s.json" % self.pid), "w") as f:
            json.dump(ev, f, indent=1, default=str)
        for l in lines:
            print(l)
        print("%s: %d obligations, %d discharged, %d known finding(s), %d violation(s) [%s, %.1fs]" % (
            self.pid, n, n - len(bad), len(knownhits), len(seen), self.tier, time.time() - self.t0))
        return 1 if seen else 0



class Suffixed(object):
    """the same rules on another configuration: instance names carry the configuration"""

    def __init__(self, chk, suffix):
        self._chk, self._suffix = chk, suffix

    def ob(self, rule, instance, *a, **k):
        return self._chk.ob(rule, instance + self._suffix, *a, **k)

    def floor(self, rule, what, *a, **k):
        return self._chk.floor(rule, what + self._suffix, *a, **k)

    def __getattr__(self, name):
        return getattr(self._chk, name)
