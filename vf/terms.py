"""Hash-consed terms with two algebraic normal forms.

  * GF(2)-affine form ('aff'): a w-bit value whose every bit is a constant xor
    a set of bits of *atoms*.  Stored column-packed: for an atom of width wa the
    integer `packed` holds wa columns of w bits each; column j (bits
    [j*w,(j+1)*w)) is the set of output bits that atom bit j feeds.
  * ring form ('ring'): a polynomial mod 2^w over atoms.

Everything else (symbols, ite, select, comparisons, opaque calls, ...) is an
atom.  Equality of values that the normaliser can establish is object
identity (`a is b`).  Nothing here executes repository code; these are the
normal forms of a value-numbering pass.
"""
import hashlib

_INTERN = {}
_NEXT = [0]


class T(object):
    __slots__ = ("op", "w", "args", "aux", "id", "_dig", "_kb", "_rng")

    def __repr__(self):
        return show(self, 3)


def _mk(op, w, args=(), aux=None):
    key = (op, w, tuple(a.id if isinstance(a, T) else a for a in args), aux)
    t = _INTERN.get(key)
    if t is None:
        t = T()
        t.op = op
        t.w = w
        t.args = tuple(args)
        t.aux = aux
        t.id = _NEXT[0]
        _NEXT[0] += 1
        t._dig = None
        t._kb = None
        t._rng = None
        _INTERN[key] = t
    return t


def mask(w):
    return (1 << w) - 1


def const(v, w):
    return _mk("const", w, (), v & mask(w))


def sym(name, w):
    return _mk("sym", w, (), name)


def is_const(t):
    return t.op == "const"


def cval(t):
    return t.aux


TRUE = None
FALSE = None


def _init_consts():
    global TRUE, FALSE
    TRUE = const(1, 1)
    FALSE = const(0, 1)


_init_consts()

# --------------------------------------------------------------------------
# packed column helpers

_IDENT = {}
_COLMASK = {}


def ident_packed(w, wa):
    """columns of the zero-extension / truncation of a wa-bit atom to w bits"""
    k = (w, wa)
    v = _IDENT.get(k)
    if v is None:
        v = 0
        for j in range(min(w, wa)):
            v |= 1 << (j * w + j)
        _IDENT[k] = v
    return v


def rep_mask(w, wa, m):
    """the w-bit mask m replicated in each of wa columns"""
    k = (w, wa, m)
    v = _COLMASK.get(k)
    if v is None:
        v = 0
        for j in range(wa):
            v |= m << (j * w)
        if len(_COLMASK) > 20000:
            _COLMASK.clear()
        _COLMASK[k] = v
    return v


def cols(packed, w, wa):
    m = mask(w)
    return [(packed >> (j * w)) & m for j in range(wa)]


def pack(colsl, w):
    v = 0
    for j, c in enumerate(colsl):
        v |= c << (j * w)
    return v


# --------------------------------------------------------------------------
# affine form


def aff_parts(t):
    """-> (const, {atom: packed}) for any scalar term"""
    if t.op == "const":
        return t.aux, {}
    if t.op == "aff":
        c, ents = t.aux
        return c, {a: p for a, p in zip(t.args, ents)}
    return 0, {t: ident_packed(t.w, t.w)}


def mk_aff(w, c, ents):
    """normalise and intern an affine form; ents: {atom: packed (w x atom.w)}"""
    c &= mask(w)
    out = {}
    for a, p in ents.items():
        if p == 0:
            continue
        # ring atoms: bits below the common power of two of the coefficients are constants
        if a.op == "ring":
            k, v = known_bits(a)
            if k:
                cs = cols(p, w, a.w)
                j = 0
                while (k >> j) & 1:
                    if cs[j]:
                        if (v >> j) & 1:
                            c ^= cs[j]
                        cs[j] = 0
                    j += 1
                p = pack(cs, w)
                if p == 0:
                    continue
        if a in out:
            out[a] ^= p
            if out[a] == 0:
                del out[a]
        else:
            out[a] = p
    if not out:
        return const(c, w)
    if len(out) == 1 and c == 0:
        (a, p), = out.items()
        if a.w == w and p == ident_packed(w, w):
            return a
    items = sorted(out.items(), key=lambda kv: kv[0].id)
    return _mk("aff", w, tuple(a for a, _ in items), (c, tuple(p for _, p in items)))


def xor(a, b):
    assert a.w == b.w, (a, b)
    if a is b:
        return const(0, a.w)
    ca, ea = aff_parts(a)
    cb, eb = aff_parts(b)
    e = dict(ea)
    for at, p in eb.items():
        q = e.get(at)
        if q is None:
            e[at] = p
        else:
            q ^= p
            if q:
                e[at] = q
            else:
                del e[at]
    return mk_aff(a.w, ca ^ cb, e)


def bnot(a):
    c, e = aff_parts(a)
    return mk_aff(a.w, c ^ mask(a.w), e)


def and_const(a, m):
    w = a.w
    m &= mask(w)
    if m and (m & (m + 1)) == 0 and m != mask(w):
        return zext(trunc(a, m.bit_length()), w)  # a low mask is a truncation (one normal form for `x & 0xff` and `x as u8`)
    c, e = aff_parts(a)
    return mk_aff(w, c & m, {at: p & rep_mask(w, at.w, m) for at, p in e.items()})


def shl(a, k):
    w = a.w
    if k >= w:
        return const(0, w)
    if k == 0:
        return a
    c, e = aff_parts(a)
    keep = mask(w - k)
    return mk_aff(w, (c << k), {at: (p & rep_mask(w, at.w, keep)) << k for at, p in e.items()})


def lshr(a, k):
    w = a.w
    if k >= w:
        return const(0, w)
    if k == 0:
        return a
    c, e = aff_parts(a)
    keep = mask(w) & ~mask(k)
    return mk_aff(w, c >> k, {at: (p & rep_mask(w, at.w, keep)) >> k for at, p in e.items()})


def rotl(a, k):
    w = a.w
    k %= w
    if k == 0:
        return a
    return xor(shl(a, k), lshr(a, w - k))


def rotr(a, k):
    return rotl(a, (a.w - k) % a.w)


def ashr(a, k):
    w = a.w
    if k == 0:
        return a
    k = min(k, w - 1)
    # replicate the sign bit into the top k positions
    r = lshr(a, k)
    sign = lshr(a, w - 1)  # bit 0 = sign
    for i in range(k):
        r = xor(r, shl(sign, w - 1 - i))
    return r


def _relayout(p, w_old, w_new, wa):
    """change the column stride from w_old to w_new, truncating or extending"""
    if w_old == w_new:
        return p
    m = mask(min(w_old, w_new))
    cs = cols(p, w_old, wa)
    return pack([c & m for c in cs], w_new)


def zext(a, w):
    if a.w == w:
        return a
    assert w > a.w
    c, e = aff_parts(a)
    # widening back the low bits of a w-bit atom whose value is known to fit in them gives the atom itself
    if c == 0 and len(e) == 1:
        (at, p), = e.items()
        if at.w == w and at.op != "const" and p == ident_packed(a.w, at.w) and urange(at)[1] <= mask(a.w):
            return at
    return mk_aff(w, c, {at: _relayout(p, a.w, w, at.w) for at, p in e.items()})


def trunc(a, w):
    if a.w == w:
        return a
    assert w < a.w
    if a.op == "ring" and len(a.aux) <= RING_EXPAND_LIMIT:
        return mk_ring(w, dict(a.aux))  # truncation is a ring homomorphism: the same polynomial mod 2^w
    c, e = aff_parts(a)
    c &= mask(w)
    out = {}
    for at, p in e.items():
        p = _relayout(p, a.w, w, at.w)
        # a ring atom of which the truncation keeps only the low k bits: the same polynomial mod 2^k (truncation is a ring
        # homomorphism), so that a byte taken from a wide word and the same byte computed from the narrow word are one term
        if p and at.op == "ring" and at.w > w and p == ident_packed(w, at.w) and len(at.aux) <= RING_EXPAND_LIMIT and not _NO_RINGTRUNC:
            # (only the plain low part: a slice from the middle stays a slice of the wide atom, which is also what masking
            # with a constant gives)
            cs = cols(p, w, at.w)
            k = w
            a2 = mk_ring(k, dict(at.aux))
            if a2.op == "const":
                for j in range(k):
                    if (a2.aux >> j) & 1:
                        c ^= cs[j]
                continue
            if a2.w == k and a2.op != "aff":
                at, p = a2, pack(cs[:k], w)
        out[at] = out.get(at, 0) ^ p
    return mk_aff(w, c, out)


def sext(a, w):
    if a.w == w:
        return a
    z = zext(a, w)
    sign = lshr(z, a.w - 1)  # bit0 = sign (bits above are zero since zext)
    sign = and_const(sign, 1)
    r = z
    for i in range(a.w, w):
        r = xor(r, shl(sign, i))
    return r


def concat_bytes_le(bs):
    """bs: list of 8-bit terms, least significant first"""
    w = 8 * len(bs)
    r = const(0, w)
    for i, b in enumerate(bs):
        r = xor(r, shl(zext(b, w), 8 * i))
    return r


def byte_of(a, i):
    return trunc(lshr(a, 8 * i), 8)


def known_bits(t):
    """(known_mask, known_value): bits of t that are constants"""
    if t._kb is not None:
        return t._kb
    w = t.w
    if t.op == "const":
        r = (mask(w), t.aux)
    elif t.op == "aff":
        c, ents = t.aux
        unk = 0
        for at, p in zip(t.args, ents):
            for col in cols(p, w, at.w):
                unk |= col
        r = (mask(w) & ~unk, c & ~unk)
    elif t.op == "ring":
        poly = t.aux
        tz = w
        c0 = 0
        for mono, co in poly:
            if mono == ():
                c0 = co
            else:
                tz = min(tz, (co & -co).bit_length() - 1)
        r = (mask(tz), c0 & mask(tz))
    elif t.op in ("ult", "slt", "eqz", "and1"):
        r = (0, 0)
    elif t.op == "rng" and str(t.aux[0]).endswith(".discr"):
        # discriminants only: loop variables with an interval keep (0, 0) so that a counter in [0, 1] is not taken for a flag
        r = (mask(w) & ~mask(t.aux[1][1].bit_length()), 0)
    elif t.op in ("res", "uabs") and t._rng is not None:
        r = (mask(w) & ~mask(t._rng[1].bit_length()), 0)
    elif t.op == "ite":
        ka, va = known_bits(t.args[1])
        kb, vb = known_bits(t.args[2])
        k = ka & kb & ~(va ^ vb)
        r = (k, va & k)
    elif t.op == "lz":
        # leading_zeros of a w'-bit value fits in bit_length(w') bits
        n = t.args[0].w.bit_length()
        r = (mask(w) & ~mask(n), 0)
    else:
        r = (0, 0)
    t._kb = r
    return r


# --------------------------------------------------------------------------
# ring form.  poly: dict monomial(tuple of atom ids, sorted) -> coeff ; atoms by id

_ATOM = {}
RING_EXPAND_LIMIT = 48
import os as _os
_NO_RINGTRUNC = bool(_os.environ.get("VF_NO_RINGTRUNC"))


def _atom_reg(a):
    _ATOM[a.id] = a
    return a.id


def to_poly(t):
    w = t.w
    if t.op == "const":
        return {(): t.aux} if t.aux else {}
    if t.op == "ring":
        if len(t.aux) > RING_EXPAND_LIMIT:
            return {(_atom_reg(t),): 1}  # large sums are shared, not re-expanded (keeps recurrences linear-size)
        return dict(t.aux)
    if t.op == "aff":
        d = _aff_as_disjoint(t)
        if d is not None:
            return d
        # !x = -x - 1: of a word and its complement, the one with the smaller constant part is the representative
        if w > 1 and t.aux[0] > (mask(w) ^ t.aux[0]):
            lin = xor(t, const(mask(w), w))
            if lin.op != "const":
                pl = to_poly(lin)
                out = {k_: (-v_) & mask(w) for k_, v_ in pl.items()}
                out[()] = (out.get((), 0) + mask(w)) & mask(w)
                return out
        # constant bits outside everything the linear part can set add like an ordinary summand
        c0 = t.aux[0]
        if c0:
            lin = xor(t, const(c0, w))
            k_, v_ = known_bits(lin)
            if (c0 & ~(k_ & ~v_)) == 0 and lin.op != "const":
                return {(): c0, (_atom_reg(lin),): 1}
    return {(_atom_reg(t),): 1}


def _aff_as_disjoint(t):
    """if t = c + sum 2^s_a * zext(slice_a) with pairwise disjoint bit ranges, where every slice_a is a contiguous bit-slice of
    an atom (the whole atom in the common case; a rotation contributes two slices of the same atom)"""
    w = t.w
    c, ents = t.aux
    occupied = c
    poly = {}
    if c:
        poly[()] = c
    for at, p in zip(t.args, ents):
        wa = at.w
        cs = cols(p, w, wa)
        # maximal runs of consecutive atom bits that land on consecutive word bits
        runs = []
        j = 0
        while j < wa:
            cj = cs[j]
            if not cj:
                j += 1
                continue
            if cj & (cj - 1):
                return None
            pos = cj.bit_length() - 1
            k = j + 1
            while k < wa and cs[k] == (1 << (pos + k - j)) and pos + k - j < w:
                k += 1
            runs.append((j, k, pos))
            j = k
        for lo, hi, s_ in runs:
            span = ((1 << (hi - lo)) - 1) << s_
            if span & occupied:
                return None
            occupied |= span
            if lo == 0 and (hi == wa or hi - lo + s_ >= w):
                atom = at
                if at.op == "ring" and wa + s_ >= w and len(at.aux) <= RING_EXPAND_LIMIT:
                    # 2^s * (a polynomial mod 2^wa), cut at w <= wa + s: the polynomial itself, scaled (one normal form whether
                    # the product was built before or after the shift / rotation)
                    for mono_, co_ in at.aux:
                        poly[mono_] = (poly.get(mono_, 0) + (co_ << s_)) & mask(w)
                    continue
            else:
                atom = trunc(lshr(at, lo), hi - lo) if lo else trunc(at, hi - lo)
                if atom.op == "const":
                    return None
            key = (_atom_reg(atom),)
            poly[key] = poly.get(key, 0) + (1 << s_)
    return poly


def mk_ring(w, poly):
    m = mask(w)
    poly = {k: v & m for k, v in poly.items()}
    poly = {k: v for k, v in poly.items() if v}
    if not poly:
        return const(0, w)
    if len(poly) == 1 and () in poly:
        return const(poly[()], w)
    # k + c*b with b a 0/1 word: ite(b, k+c, k) = k ^ (replicate(b) & ((k+c) ^ k)) is affine
    if len(poly) <= 2 and w > 1:
        monos = [k_ for k_ in poly if k_ != ()]
        if len(monos) == 1 and len(monos[0]) == 1 and (len(poly) == 1 or () in poly):
            at = _ATOM[monos[0][0]]
            co = poly[monos[0]]
            if co & (co - 1):  # powers of two are handled (better) by the disjoint-span rule below
                bit = _bool_word_bit(at)
                if bit is not None:
                    k0 = poly.get((), 0)
                    return xor(const(k0, w), and_const(replicate(bit, w), ((k0 + co) & m) ^ k0))
    # disjoint power-of-two combination of atoms -> affine form
    ok = True
    occupied = poly.get((), 0)
    parts = []
    for mono, co in poly.items():
        if mono == ():
            continue
        if len(mono) != 1 or co & (co - 1):
            ok = False
            break
        at = _ATOM[mono[0]]
        s = co.bit_length() - 1
        ka_, va_ = known_bits(at)
        span = ((mask(at.w) & ~(ka_ & ~va_)) << s) & m  # bits the atom can possibly set
        if span & occupied:
            ok = False
            break
        occupied |= span
        parts.append((at, s))
    if ok:
        r = const(poly.get((), 0), w)
        for at, s in parts:
            atw = zext(at, w) if at.w < w else (trunc(at, w) if at.w > w else at)
            r = xor(r, shl(atw, s))
        return r
    items = tuple(sorted(poly.items()))
    atoms = sorted({i for mono, _ in items for i in mono})
    return _mk("ring", w, tuple(_ATOM[i] for i in atoms), items)


def _bool_word_bit(t):
    """if t is a word whose only possibly-set bit is bit 0, return that 1-bit term"""
    k, v = known_bits(t)
    if (k | 1) == mask(t.w) and (v & ~1) == 0:
        return trunc(t, 1)
    return None


def replicate(bit, w):
    """w-bit word with every bit equal to the 1-bit term"""
    z = zext(bit, w)
    r = const(0, w)
    c, e = aff_parts(z)
    # z has only bit 0; build all-bits copy
    full = mask(w)
    ents = {}
    for at, p in e.items():
        cs = cols(p, w, at.w)
        ents[at] = pack([full if cj & 1 else 0 for cj in cs], w)
    return mk_aff(w, full if (c & 1) else 0, ents)


def add(a, b):
    w = a.w
    assert b.w == w
    if a.op == "const" and b.op == "const":
        return const(a.aux + b.aux, w)
    # (0/1 word) - 1  ==  not(replicate(bit))
    for x, y in ((a, b), (b, a)):
        if y.op == "const" and y.aux == mask(w) and w > 1:
            bit = _bool_word_bit(x)
            if bit is not None:
                return bnot(replicate(bit, w))
    # n + (c as uN) is the conditional increment ite(c, n + 1, n): one form for `if c { n += 1 }` and `n += uN::from(c)`
    if w > 1:
        for x, y in ((a, b), (b, a)):
            if y.op != "const" and x.op != "const":
                bit = _bool_word_bit(y)
                if bit is not None and bit.op != "const" and _bool_word_bit(x) is None:
                    return ite(bit, add(x, const(1, w)), x)
    pa, pb = to_poly(a), to_poly(b)
    for k, v in pb.items():
        pa[k] = pa.get(k, 0) + v
    return mk_ring(w, pa)


def neg(a):
    return mul(a, const(mask(a.w), a.w))


def sub(a, b):
    if a is b:
        return const(0, a.w)
    return add(a, neg(b))


def mul(a, b):
    w = a.w
    assert b.w == w
    if a.op == "const" and b.op == "const":
        return const(a.aux * b.aux, w)
    pa, pb = to_poly(a), to_poly(b)
    out = {}
    m = mask(w)
    for ka, va in pa.items():
        for kb, vb in pb.items():
            k = tuple(sorted(ka + kb))
            out[k] = (out.get(k, 0) + va * vb) & m
    return mk_ring(w, out)


# --------------------------------------------------------------------------
# bitwise and / or


def band(a, b):
    w = a.w
    assert b.w == w
    if a is b:
        return a
    if b.op == "const":
        return and_const(a, b.aux)
    if a.op == "const":
        return and_const(b, a.aux)
    ka, va = known_bits(a)
    kb, vb = known_bits(b)
    zero_a = ka & ~va  # bits known zero in a
    zero_b = kb & ~vb
    one_a = ka & va
    one_b = kb & vb
    if (zero_a | zero_b) == mask(w):
        return const(0, w)
    # where one side is known 1 the result is the other side; where known 0, zero
    if ((one_a | zero_a) | (one_b | zero_b)) == mask(w):
        # every bit position is decided by a constant on at least one side
        r = const(0, w)
        r = xor(r, and_const(b, one_a & ~zero_b))
        r = xor(r, and_const(a, one_b & ~one_a & ~zero_a))
        return r
    if w == 1:
        return and1([a, b])
    x, y = (a, b) if a.id < b.id else (b, a)
    return _mk("and", w, (x, y))


def bor(a, b):
    w = a.w
    assert b.w == w
    if a is b:
        return a
    ka, va = known_bits(a)
    kb, vb = known_bits(b)
    zero_a = ka & ~va
    zero_b = kb & ~vb
    if (zero_a | zero_b) == mask(w):
        return xor(a, b)  # bit-disjoint: or == xor
    return bnot(band(bnot(a), bnot(b)))


def and1(ts):
    """n-ary conjunction of 1-bit terms (flattened, sorted, deduplicated)"""
    flat = []
    for t in ts:
        assert t.w == 1
        if t.op == "const":
            if t.aux == 0:
                return FALSE
            continue
        if t.op == "and1":
            flat.extend(t.args)
        else:
            flat.append(t)
    uniq = {}
    for t in flat:
        uniq[t.id] = t
    # x and not x
    for t in list(uniq.values()):
        n = bnot(t)
        if n.id in uniq:
            return FALSE
    # members of the form not(and1(S)): conjuncts of S that are members are true, so drop them from S
    changed = True
    guard = 0
    while changed and guard < 8:
        changed = False
        guard += 1
        for t in list(uniq.values()):
            if t.op == "aff" and t.w == 1 and (t.aux[0] & 1) and len(t.args) == 1 and t.aux[1] == (1,) and t.args[0].op == "and1":
                S = t.args[0].args
                if any(bnot(x).id in uniq for x in S):
                    del uniq[t.id]  # some conjunct of S is false: not(and1(S)) holds
                    changed = True
                    continue
                rest = [x for x in S if x.id not in uniq]
                if not rest:
                    return FALSE
                if len(rest) < len(S):
                    del uniq[t.id]
                    nt = bnot(and1(rest))
                    if nt.op == "const":
                        if nt.aux == 0:
                            return FALSE
                    elif nt.op == "and1":
                        for y in nt.args:
                            uniq[y.id] = y
                    else:
                        uniq[nt.id] = nt
                    changed = True
    if not uniq:
        return TRUE
    if len(uniq) == 1:
        return list(uniq.values())[0]
    return _mk("and1", 1, tuple(uniq[i] for i in sorted(uniq)))


def or1(ts):
    return bnot(and1([bnot(t) for t in ts]))


# --------------------------------------------------------------------------
# comparisons (all return 1-bit terms)


_EQZ_MEMO = {}


def eqz(d):
    """1-bit term: d == 0"""
    r = _EQZ_MEMO.get(d.id)
    if r is None:
        r = _eqz(d)
        if len(_EQZ_MEMO) > 400000:
            _EQZ_MEMO.clear()
        _EQZ_MEMO[d.id] = r
    return r


def _eqz(d):
    if d.op == "const":
        return TRUE if d.aux == 0 else FALSE
    k, v = known_bits(d)
    if k & v:
        return FALSE
    if d.w == 1:
        return bnot(d)
    if d.op == "ite":
        return ite(d.args[0], eqz(d.args[1]), eqz(d.args[2]))
    if d.op == "aff" and len(d.args) == 1 and d.args[0].op == "ite" and d.args[0].w == d.w and d.aux[1][0] == ident_packed(d.w, d.w):
        # (if c { a } else { b }) == k: the comparison goes into the branches
        it = d.args[0]
        k_ = const(d.aux[0], d.w)
        return ite(it.args[0], eqz(xor(it.args[1], k_)), eqz(xor(it.args[2], k_)))
    if d.op == "aff" or d.op != "ring":
        c, e = aff_parts(d)
        w = d.w
        # rows: for each output bit, (const bit, {atom: mask over atom bits})
        rows = {}
        atoms = sorted(e.keys(), key=lambda a: a.id)
        colsd = {a: cols(e[a], w, a.w) for a in atoms}
        for a in atoms:
            if a.op in ("rng", "res", "uabs", "lz") and a.w > 1:
                # bits above the largest possible value of a ranged atom are zero: they take no part in the test
                k_, v_ = known_bits(a)
                if k_:
                    cs_ = list(colsd[a])
                    for j in range(a.w):
                        if (k_ >> j) & 1 and cs_[j]:
                            if (v_ >> j) & 1:
                                c ^= cs_[j]
                            cs_[j] = 0
                    colsd[a] = cs_
        for i in range(w):
            key = []
            for a in atoms:
                m = 0
                for j, cj in enumerate(colsd[a]):
                    if (cj >> i) & 1:
                        m |= 1 << j
                if m:
                    key.append((a.id, m))
            cb = (c >> i) & 1
            if not key:
                if cb:
                    return FALSE
                continue
            key = tuple(key)
            if key in rows and rows[key] != cb:
                return FALSE  # r = 0 and r = 1 simultaneously
            rows[key] = cb
        # atoms all of whose bits must individually be zero: one whole-atom test eqz(atom)
        bits = []
        for a in atoms:
            ks = [((a.id, 1 << j),) for j in range(a.w)]
            if a.w > 1 and all(k in rows and rows[k] == 0 for k in ks):
                for k in ks:
                    del rows[k]
                bits.append(_mk("eqz", 1, (a,)))
        # (x | y) == 0: the word is stored as not(and(not x, not y)); "and-atom == all ones" is both operands all ones
        for a in atoms:
            ks = [((a.id, 1 << j),) for j in range(a.w)]
            if a.w > 1 and a.op == "and" and all(k in rows and rows[k] == 1 for k in ks):
                for k in ks:
                    del rows[k]
                bits.append(eqz(bnot(a.args[0])))
                bits.append(eqz(bnot(a.args[1])))
        # each remaining distinct row r with const cb: need r ^ cb == 0  <=>  bit term (r ^ cb ^ 1) is 1
        for key in sorted(rows):
            ents = {}
            for aid, m in key:
                a = _byid(atoms, aid)
                ents[a] = m  # stride w=1: column j occupies bit j
            bits.append(mk_aff(1, rows[key] ^ 1, ents))
        return and1(bits)
    if d.op == "ring":
        items = d.aux
        w = d.w
        # x - y == 0  <=>  x == y: the bitwise form is the canonical one
        if len(items) == 2 and all(len(mo) == 1 for mo, _ in items):
            (m1, c1), (m2, c2) = items
            if {c1, c2} == {1, mask(w)}:
                x, y = _ATOM[m1[0]], _ATOM[m2[0]]
                if x.w >= w and y.w >= w:  # only the low w bits of a wider atom matter mod 2^w
                    x = trunc(x, w) if x.w > w else x
                    y = trunc(y, w) if y.w > w else y
                    return eqz(xor(x, y))
        # p == 0 and -p == 0 are the same test: keep the representative whose first coefficient is the smaller one
        first = items[0][1]
        if first > ((-first) & mask(w)):
            return _mk("eqz", 1, (mk_ring(w, {mo: (-co) & mask(w) for mo, co in items}),))
    return _mk("eqz", 1, (d,))


def _byid(atoms, aid):
    for a in atoms:
        if a.id == aid:
            return a
    raise KeyError(aid)


def eq(a, b):
    assert a.w == b.w, (a, b)
    if a is b:
        return TRUE
    if a.w > 1 and (a.op == "ring" or b.op == "ring"):
        return eqz(sub(a, b))  # a difference of arithmetic terms compares as the arithmetic difference
    return eqz(xor(a, b))


def ne(a, b):
    return bnot(eq(a, b))


def urange(t):
    """sound unsigned interval [lo, hi] of t from its structure"""
    if t._rng is not None:
        return t._rng
    w = t.w
    if t.op == "const":
        r = (t.aux, t.aux)
    elif t.op == "ring":
        # try exact interval arithmetic without wrap
        lo = hi = 0
        ok = True
        for mono, co in t.aux:
            if mono == ():
                lo += co
                hi += co
                continue
            l2, h2 = 1, 1
            for i in mono:
                a, b = urange(_ATOM[i])
                l2 *= a
                h2 *= b
            lo += co * l2
            hi += co * h2
        if hi <= mask(w):
            r = (lo, hi)
        else:
            # maybe the polynomial is "x - c" style: fall back to known bits
            k, v = known_bits(t)
            r = (v, v | (mask(w) & ~k))
    elif t.op == "ite":
        a = urange(t.args[1])
        b = urange(t.args[2])
        r = (min(a[0], b[0]), max(a[1], b[1]))
    elif t.op == "lz":
        lo_x, hi_x = urange(t.args[0])
        wx = t.args[0].w
        r = (wx - hi_x.bit_length(), wx - lo_x.bit_length())
    elif t.op == "udiv":
        a = urange(t.args[0])
        b = urange(t.args[1])
        if b[0] > 0:
            r = (a[0] // b[1], a[1] // b[0])
        else:
            r = (0, mask(w))
    elif t.op == "urem":
        b = urange(t.args[1])
        a = urange(t.args[0])
        r = (0, min(a[1], max(b[1] - 1, 0)))
    elif t.op == "uabs":
        r = (0, 1 << (w - 1))
    elif t.op == "rng":  # range-annotated opaque atom
        r = t.aux[1]
    else:
        k, v = known_bits(t)
        r = (v, v | (mask(w) & ~k))
    if t.op == "aff":
        # an affine image of narrower atoms: also bounded by atom ranges when it is a pure zext
        c, ents = t.aux
        if c == 0 and len(t.args) == 1:
            at = t.args[0]
            if ents[0] == ident_packed(w, at.w):
                a = urange(at)
                r = (max(r[0], a[0]), min(r[1], a[1]))
    t._rng = r
    return r


def ult(a, b):
    assert a.w == b.w
    if a is b:
        return FALSE
    # x / C < K  <=>  x < C*K   (C, K constants, no overflow)
    if a.op == "udiv" and b.op == "const" and a.args[1].op == "const" and a.args[1].aux > 0:
        prod = a.args[1].aux * b.aux
        if prod <= mask(a.w):
            return ult(a.args[0], const(prod, a.w))
    ra, rb = urange(a), urange(b)
    if ra[1] < rb[0]:
        return TRUE
    if ra[0] >= rb[1]:
        return FALSE
    # both sides are affine in one and the same 1-bit atom (e.g. a bound `if c {2} else {1}`): decide by its two values
    p = _one_bit_atom(a, b)
    if p is not None:
        r = []
        for v in (0, 1):
            m = {p: const(v, 1)}
            x, y = subst(a, m), subst(b, m)
            if x.op != "const" or y.op != "const":
                r = None
                break
            r.append(x.aux < y.aux)
        if r is not None:
            if r[0] == r[1]:
                return TRUE if r[0] else FALSE
            return p if r[1] else bnot(p)
    return _mk("ult", 1, (a, b))


def _one_bit_atom(a, b):
    found = None
    for t in (a, b):
        if t.op == "const":
            continue
        if t.op != "aff" or len(t.args) != 1 or t.args[0].w != 1:
            return None
        if found is not None and t.args[0] is not found:
            return None
        found = t.args[0]
    return found


def ule(a, b):
    return bnot(ult(b, a))


def to_signed(v, w):
    return v - (1 << w) if v >> (w - 1) else v


def slt(a, b):
    assert a.w == b.w
    w = a.w
    if a is b:
        return FALSE
    if a.op == "const" and b.op == "const":
        return TRUE if to_signed(a.aux, w) < to_signed(b.aux, w) else FALSE
    # flip sign bits -> unsigned compare
    sb = const(1 << (w - 1), w)
    fa, fb = xor(a, sb), xor(b, sb)
    ra, rb = urange(fa), urange(fb)
    if ra[1] < rb[0]:
        return TRUE
    if ra[0] >= rb[1]:
        return FALSE
    return _mk("slt", 1, (a, b))


def sle(a, b):
    return bnot(slt(b, a))


def ite(c, a, b):
    assert c.w == 1
    if a is b:
        return a
    if c.op == "const":
        return a if c.aux else b
    # a chain of tests with one common fall-back is one test: if c { if d { x } else { y } } else { y }  =  if c && d { x } else { y }
    if a.op == "ite" and a.w > 1 and a.args[2] is b:
        return ite(and1([c, a.args[0]]), a.args[1], b)
    if b.op == "ite" and b.w > 1 and b.args[1] is a:
        return ite(or1([c, b.args[0]]), a, b.args[2])
    w = a.w
    assert b.w == w, (a, b)
    if w == 1:
        if a.op == "const" and b.op == "const":
            return c if a.aux else bnot(c)
        if b.op == "const":
            return and1([c, a]) if b.aux == 0 else or1([bnot(c), a])
        if a.op == "const":
            return and1([bnot(c), b]) if a.aux == 0 else or1([c, b])
    # canonical polarity: if c is a negation (affine with const 1), swap
    if c.op == "aff" and (c.aux[0] & 1):
        return ite(bnot(c), b, a)
    # ite(c, x ^ K, x) with K constant  =  x ^ (K & replicate(c)): stays in the affine form
    if w > 1 and w <= 128:
        ca, ea = aff_parts(a)
        cb, eb = aff_parts(b)
        if ca != cb and ea == eb:  # same linear part, different constant
            return xor(b, and_const(replicate(c, w), ca ^ cb))
    # the absolute value written as a test of the sign: if x < 0 { p - x } else { p + x }  =  p + |x|  (x a signed w-bit value)
    if c.op == "slt" and c.args[0].w == w and c.args[1].op == "const" and c.args[1].aux == 0 and w >= 8:
        x = c.args[0]
        base = add(a, x)
        if base is sub(b, x):
            return add(base, uabs(x))
    # ite(c, x ^ d, x) = x ^ (c ? d : 0): push when d is constant
    return _mk("ite", w, (c, a, b))


# --------------------------------------------------------------------------
# other atoms


def atom(op, w, args, aux=None):
    return _mk(op, w, tuple(args), aux)


def udiv(a, b):
    w = a.w
    if b.op == "const" and b.aux and b.aux & (b.aux - 1) == 0:
        return lshr(a, b.aux.bit_length() - 1)
    if a.op == "const" and b.op == "const" and b.aux:
        return const(a.aux // b.aux, w)
    return _mk("udiv", w, (a, b))


def urem(a, b):
    w = a.w
    if b.op == "const" and b.aux and b.aux & (b.aux - 1) == 0:
        return and_const(a, b.aux - 1)
    if a.op == "const" and b.op == "const" and b.aux:
        return const(a.aux % b.aux, w)
    return _mk("urem", w, (a, b))


def sdiv(a, b):
    w = a.w
    if a.op == "const" and b.op == "const" and b.aux:
        x, y = to_signed(a.aux, w), to_signed(b.aux, w)
        q = abs(x) // abs(y)
        if (x < 0) != (y < 0):
            q = -q
        return const(q, w)
    return _mk("sdiv", w, (a, b))


def srem(a, b):
    w = a.w
    if a.op == "const" and b.op == "const" and b.aux:
        x, y = to_signed(a.aux, w), to_signed(b.aux, w)
        r = abs(x) % abs(y)
        if x < 0:
            r = -r
        return const(r, w)
    return _mk("srem", w, (a, b))


def lz(a):
    """leading_zeros as a 32-bit value"""
    if a.op == "const":
        return const(a.w - a.aux.bit_length(), 32)
    return _mk("lz", 32, (a,))


def uabs(a):
    """unsigned_abs of a signed w-bit value"""
    w = a.w
    if a.op == "const":
        return const(abs(to_signed(a.aux, w)), w)
    return _mk("uabs", w, (a,))


def shl_var(a, k):
    if k.op == "const":
        return shl(a, k.aux)
    return _mk("shlv", a.w, (a, k))


def lshr_var(a, k):
    if k.op == "const":
        return lshr(a, k.aux)
    return _mk("lshrv", a.w, (a, k))


def rotr_var(a, k):
    if k.op == "const":
        return rotr(a, k.aux % a.w)
    return _mk("rotrv", a.w, (a, k))


def rotl_var(a, k):
    if k.op == "const":
        return rotl(a, k.aux % a.w)
    return _mk("rotlv", a.w, (a, k))


# arrays as terms


def arr_sym(name, n, w):
    return _mk("arr", w, (), (name, n))


def arr_store(arr, idx, val):
    return _mk("store", arr.w, (arr, idx, val), arr.aux if arr.op == "arr" else None)


def arr_overlay(base, items):
    """base with constant-index elements replaced; items: sorted tuple of (idx, term)"""
    if not items:
        return base
    flat = []
    for i, v in items:
        flat.append(const(i, 64))
        flat.append(v)
    return _mk("overlay", base.w, (base,) + tuple(flat))


def arr_lit(elems):
    return _mk("arrlit", elems[0].w if elems else 0, tuple(elems))


def select(arr, idx, w):
    return _mk("select", w, (arr, idx))


# --------------------------------------------------------------------------
# printing / digests


def show(t, depth=4):
    if not isinstance(t, T):
        return repr(t)
    if t.op == "const":
        return "%#x:%d" % (t.aux, t.w)
    if t.op == "sym":
        return str(t.aux)
    if t.op == "rng":
        return "%s∈[%d,%d]" % (t.aux[0], t.aux[1][0], t.aux[1][1])
    if depth <= 0:
        return "<%s#%d>" % (t.op, t.id)
    if t.op == "aff":
        c, ents = t.aux
        w = t.w
        parts = []
        for at, p in zip(t.args, ents):
            cs = cols(p, w, at.w)
            desc = _describe_cols(cs, w, at.w)
            parts.append("%s%s" % (show(at, depth - 1), desc))
        if c:
            parts.append("%#x" % c)
        return "(" + " ^ ".join(parts) + "):%d" % w
    if t.op == "ring":
        parts = []
        for mono, co in t.aux:
            if mono == ():
                parts.append("%#x" % co)
            else:
                ms = "*".join(show(_ATOM[i], depth - 1) for i in mono)
                parts.append(ms if co == 1 else "%#x*%s" % (co, ms))
        return "(" + " + ".join(parts) + "):%d" % t.w
    if t.op == "arr":
        return "%s" % (t.aux[0],)
    if t.op == "overlay":
        n = (len(t.args) - 1) // 2
        return "%s{%d const stores}" % (show(t.args[0], depth - 1), n)
    if t.op == "arrlit" and len(t.args) > 6:
        return "arrlit[%d](%s, %s, ...)" % (len(t.args), show(t.args[0], depth - 1), show(t.args[1], depth - 1))
    if t.op == "and1" and len(t.args) > 6:
        return "and1[%d](%s, %s, ...)" % (len(t.args), show(t.args[0], depth - 1), show(t.args[1], depth - 1))
    if t.op == "call":
        nm = str(t.aux).split("::")[-1] if "<" not in str(t.aux).split("::")[-1] else str(t.aux)[-40:]
        return "call:%s(%s)" % (nm, ", ".join(show(a, depth - 2) for a in t.args[:4]) + (", ..." if len(t.args) > 4 else ""))
    if t.op == "res":
        return "%s.%s" % (show(t.args[0], depth - 1), t.aux)
    return "%s(%s)" % (t.op, ", ".join(show(a, depth - 1) for a in t.args))


def _describe_cols(cs, w, wa):
    """readable description of a w x wa bit matrix: xor of shifts / rotations when it is one"""
    diags = {}
    for j, c in enumerate(cs):
        i = 0
        while c:
            if c & 1:
                diags.setdefault(i - j, set()).add(j)
            c >>= 1
            i += 1
    if not diags:
        return "*0"
    parts = []
    used = set()
    ds = sorted(diags)
    # rotations: diagonals d and d-w together covering all columns
    if wa == w:
        for d in ds:
            if d > 0 and (d - w) in diags and d not in used:
                if diags[d] | diags[d - w] == set(range(w)) and not (diags[d] & diags[d - w]):
                    full_d = set(j for j in range(wa) if 0 <= j + d < w)
                    full_e = set(j for j in range(wa) if 0 <= j + d - w < w)
                    if diags[d] == full_d and diags[d - w] == full_e:
                        parts.append(" rotl %d" % d)
                        used.add(d)
                        used.add(d - w)
    for d in ds:
        if d in used:
            continue
        js = diags[d]
        full = set(j for j in range(wa) if 0 <= j + d < w)
        lo, hi = min(js), max(js)
        if js == set(range(lo, hi + 1)):
            rng = "" if js == full else "[%d..%d]" % (lo, hi)
            parts.append("%s%s" % (rng, "" if d == 0 else ("<<%d" % d if d > 0 else ">>%d" % -d)))
        else:
            return "{lin:%d diagonals}" % len(ds)
    if len(parts) == 1:
        return parts[0]
    return "{" + " ^".join(p if p else "id" for p in parts) + "}"


def diff(a, b, depth=0):
    """outermost differing sub-terms of two terms, as a short text"""
    if a is b:
        return None
    if not isinstance(a, T) or not isinstance(b, T) or depth > 12:
        return "%s  vs  %s" % (show(a, 3), show(b, 3))
    if a.op != b.op or a.w != b.w or len(a.args) != len(b.args):
        return "found %s  expected %s" % (show(a, 4), show(b, 4))
    if a.op == "aff":
        if a.args == b.args:
            ca, ea = a.aux
            cb, eb = b.aux
            for at, pa, pb in zip(a.args, ea, eb):
                if pa != pb:
                    return "bit matrix on %s: found %s expected %s" % (
                        show(at, 2), _describe_cols(cols(pa, a.w, at.w), a.w, at.w), _describe_cols(cols(pb, a.w, at.w), a.w, at.w))
            return "constant part: found %#x expected %#x" % (ca, cb)
        da = [x for x in a.args if x not in b.args]
        db = [x for x in b.args if x not in a.args]
        if len(da) == 1 and len(db) == 1:
            return diff(da[0], db[0], depth + 1)
        return "found %s  expected %s" % (show(a, 4), show(b, 4))
    if a.op == "ring":
        pa, pb = dict(a.aux), dict(b.aux)
        if set(pa) == set(pb):
            for k in pa:
                if pa[k] != pb[k]:
                    return "coefficient of %s: found %#x expected %#x" % (
                        "*".join(show(_ATOM[i], 2) for i in k) or "1", pa[k], pb[k])
        da = [x for x in a.args if x not in b.args]
        db = [x for x in b.args if x not in a.args]
        if len(da) == 1 and len(db) == 1:
            return diff(da[0], db[0], depth + 1)
        return "found %s  expected %s" % (show(a, 4), show(b, 4))
    if a.aux != b.aux:
        return "found %s  expected %s" % (show(a, 4), show(b, 4))
    ds = [(x, y) for x, y in zip(a.args, b.args) if x is not y]
    if len(ds) == 1:
        return "in %s: %s" % (a.op, diff(ds[0][0], ds[0][1], depth + 1))
    return "found %s  expected %s" % (show(a, 4), show(b, 4))


def digest(t):
    """process-independent structural digest (for cross-configuration comparison)"""
    if not isinstance(t, T):
        return hashlib.sha1(repr(t).encode()).hexdigest()[:16]
    if t._dig is not None:
        return t._dig
    h = hashlib.sha1()
    h.update(("%s/%d/" % (t.op, t.w)).encode())
    if t.op in ("const", "sym", "arr"):
        h.update(repr(t.aux).encode())
    elif t.op == "aff":
        c, ents = t.aux
        items = sorted((digest(a), p) for a, p in zip(t.args, ents))
        h.update(repr((c, items)).encode())
    elif t.op == "ring":
        items = sorted((tuple(sorted(digest(_ATOM[i]) for i in mono)), co) for mono, co in t.aux)
        h.update(repr(items).encode())
    elif t.op in ("and1", "and"):
        h.update(repr(sorted(digest(a) for a in t.args)).encode())
    else:
        h.update(repr([digest(a) for a in t.args]).encode())
        if t.aux is not None:
            h.update(repr(t.aux).encode())
    t._dig = h.hexdigest()[:20]
    return t._dig


def atoms_of(t, acc=None):
    """all symbol names reachable from t"""
    if acc is None:
        acc = set()
    seen = set()
    stack = [t]
    while stack:
        x = stack.pop()
        if not isinstance(x, T) or x.id in seen:
            continue
        seen.add(x.id)
        if x.op == "sym" or x.op == "arr" or x.op == "rng":
            acc.add(x.aux if x.op == "sym" else x.aux[0])
        if x.op == "ring":
            for mono, _ in x.aux:
                for i in mono:
                    stack.append(_ATOM[i])
        stack.extend(x.args)
    return acc


# --------------------------------------------------------------------------
# substitution


def apply_packed(p, w, wa, sterm):
    """M * sterm where M (w x wa) is given column-packed and sterm has width wa"""
    cs = cols(p, w, wa)
    c2, e2 = aff_parts(sterm)
    c = 0
    i = 0
    x = c2
    while x:
        if x & 1:
            c ^= cs[i]
        x >>= 1
        i += 1
    ents = {}
    for b, pb in e2.items():
        cb = cols(pb, wa, b.w)
        newc = []
        for j in range(b.w):
            m = cb[j]
            acc = 0
            i = 0
            while m:
                if m & 1:
                    acc ^= cs[i]
                m >>= 1
                i += 1
            newc.append(acc)
        pk = pack(newc, w)
        if pk:
            ents[b] = ents.get(b, 0) ^ pk
    return mk_aff(w, c, ents)


def subst(t, m, memo=None):
    """replace atoms according to m (dict term -> term of the same width) and re-normalise"""
    if memo is None:
        memo = {}
    r = memo.get(t.id)
    if r is not None:
        return r
    if t in m:
        r = m[t]
    elif t.op in ("const", "sym", "rng", "arr"):
        r = t
    elif t.op == "aff":
        c, ents = t.aux
        r = const(c, t.w)
        for a, p in zip(t.args, ents):
            sa = subst(a, m, memo)
            if sa is a:
                r = xor(r, mk_aff(t.w, 0, {a: p}))
            else:
                r = xor(r, apply_packed(p, t.w, a.w, sa))
    elif t.op == "ring":
        w = t.w
        r = const(0, w)
        for mono, co in t.aux:
            term = const(co, w)
            for i in mono:
                a = _ATOM[i]
                sa = subst(a, m, memo)
                if sa.w < w:
                    sa = zext(sa, w)
                elif sa.w > w:
                    sa = trunc(sa, w)
                term = mul(term, sa)
            r = add(r, term)
    else:
        na = tuple(subst(a, m, memo) if isinstance(a, T) else a for a in t.args)
        if all(x is y for x, y in zip(na, t.args)):
            r = t
        elif t.op == "ite":
            r = ite(na[0], na[1], na[2])
        elif t.op == "ult":
            r = ult(na[0], na[1])
        elif t.op == "slt":
            r = slt(na[0], na[1])
        elif t.op == "eqz":
            r = eqz(na[0])
        elif t.op == "and1":
            r = and1(list(na))
        elif t.op == "and":
            r = band(na[0], na[1])
        elif t.op == "udiv":
            r = udiv(na[0], na[1])
        elif t.op == "urem":
            r = urem(na[0], na[1])
        elif t.op == "lz":
            r = lz(na[0])
        elif t.op == "uabs":
            r = uabs(na[0])
        elif t.op == "shlv":
            r = shl_var(na[0], na[1])
        elif t.op == "lshrv":
            r = lshr_var(na[0], na[1])
        elif t.op == "rotlv":
            r = rotl_var(na[0], na[1])
        elif t.op == "rotrv":
            r = rotr_var(na[0], na[1])
        elif t.op == "sdiv":
            r = sdiv(na[0], na[1])
        elif t.op == "srem":
            r = srem(na[0], na[1])
        else:
            r = _mk(t.op, t.w, na, t.aux)
    memo[t.id] = r
    return r


# --------------------------------------------------------------------------
# linear-map extraction


def linear_rows(outs, ins):
    """outs, ins: lists of terms.  If every out is affine over exactly the `ins`
    atoms, return (rows, consts, None): rows[i] is an int bitmask over the
    concatenated input bits (ins[0] lowest) for output bit i of the concatenated
    outputs.  Otherwise (None, None, offending atom)."""
    off = {}
    pos = 0
    for a in ins:
        off[a.id] = pos
        pos += a.w
    rows = []
    consts = []
    for o in outs:
        c, e = aff_parts(o)
        w = o.w
        r = [0] * w
        for at, p in e.items():
            if at.id not in off:
                return None, None, at
            base = off[at.id]
            for j, cj in enumerate(cols(p, w, at.w)):
                i = 0
                while cj:
                    if cj & 1:
                        r[i] |= 1 << (base + j)
                    cj >>= 1
                    i += 1
        rows.extend(r)
        consts.extend(((c >> i) & 1) for i in range(w))
    return rows, consts, None
