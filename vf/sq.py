"""Structural queries over the facts: call graph, reachability, who-constructs / reads / writes."""
from .cfg import successors


def iter_calls(body):
    for i, bl in enumerate(body["blocks"]):
        if bl["cleanup"]:
            continue
        t = bl["t"]
        if t[0] == "call":
            yield i, t


def iter_stmts(body):
    for i, bl in enumerate(body["blocks"]):
        if bl["cleanup"]:
            continue
        for s in bl["s"]:
            yield i, s


def operands_of_rvalue(rv):
    k = rv[0]
    if k in ("use",):
        return [rv[1]]
    if k == "bin":
        return [rv[2], rv[3]]
    if k == "un":
        return [rv[2]]
    if k == "cast":
        return [rv[2]]
    if k == "agg":
        return list(rv[2])
    if k == "rep":
        return [rv[1]]
    return []


def const_operands(body):
    """all constant operands in a body (statements and terminators)"""
    for i, s in iter_stmts(body):
        if s[0] == "a":
            for o in operands_of_rvalue(s[2]):
                if o[0] == "k":
                    yield o[1], s[3]
            if s[2][0] == "tlref":
                yield {"tlref": s[2][1]}, s[3]
    for i, bl in enumerate(body["blocks"]):
        if bl["cleanup"]:
            continue
        t = bl["t"]
        ops = []
        if t[0] == "call":
            ops = t[2]
            sp = t[5]
        elif t[0] in ("switch", "assert"):
            ops = [t[1]]
            sp = t[-1] if t[0] == "switch" else t[5]
        for o in ops:
            if o[0] == "k":
                yield o[1], sp


def static_refs(body):
    out = []
    for c, sp in const_operands(body):
        if "tlref" in c:
            out.append((c["tlref"], sp))
        for k in ("ptr", "mem", "slice"):
            if k in c and isinstance(c[k], dict) and "static" in c[k]:
                out.append((c[k]["static"], sp))
    return out


def reachable(bodies, roots, stop=None, tys=None):
    """-> (set of reachable body keys, list of (caller, callee json, span) for calls without a body).
    With the type table, a closure is followed into the body of its instantiation (the enclosing function's generic
    arguments applied) rather than into every body of that closure"""
    seen = set()
    stack = [r for r in roots if r in bodies]
    leaves = []
    while stack:
        k = stack.pop()
        if k in seen:
            continue
        seen.add(k)
        b = bodies[k]
        for i, t in iter_calls(b):
            c = t[1]
            if "indirect" in c:
                leaves.append((k, c, t[5]))
                continue
            r = c.get("res")
            if stop is not None and stop(c):
                leaves.append((k, c, t[5]))
            elif r and r in bodies:
                stack.append(r)
            else:
                leaves.append((k, c, t[5]))
        # closures and fn items mentioned as constants / aggregates are reachable too
        for _, s in iter_stmts(b):
            if s[0] == "a" and s[2][0] == "agg" and s[2][1].get("k") == "closure":
                d = s[2][1]["def"]
                inst = tys[s[2][1]["ty"]].get("body") if tys is not None and "ty" in s[2][1] else None
                if inst in bodies:
                    stack.append(inst)
                    continue
                for kk, bb in bodies.items():
                    if bb["def"] == d:
                        stack.append(kk)
        for c, sp in const_operands(b):
            if "fn" in c and c["fn"].get("res") in bodies:
                stack.append(c["fn"]["res"])
            if tys is not None and "zst" in c and isinstance(c.get("ty"), int) and tys[c["ty"]]["k"] == "closure":
                inst = tys[c["ty"]].get("body")
                if inst in bodies:
                    stack.append(inst)
                else:
                    stack.extend(kk for kk, bb in bodies.items() if bb["def"] == tys[c["ty"]]["def"])
        # vtable methods of trait objects created here
        for _, s in iter_stmts(b):
            if s[0] == "a" and s[2][0] == "cast" and len(s[2]) > 4:
                for m, cj in s[2][4]["vtable"].items():
                    if cj.get("res") in bodies:
                        stack.append(cj["res"])
                    else:
                        leaves.append((k, cj, s[3]))
    return seen, leaves


def field_type_closure(tys, tyid, seen=None, path=""):
    """all (path, type json) reachable through fields/elements of a type"""
    if seen is None:
        seen = {}
    if tyid in seen:
        return seen
    t = tys[tyid]
    seen[tyid] = path or t["s"]
    k = t["k"]
    if k == "adt":
        for v in t["variants"]:
            for f in v["fields"]:
                field_type_closure(tys, f["ty"], seen, (path or t["s"]) + "." + f["name"])
    elif k in ("array", "slice"):
        field_type_closure(tys, t["elem"], seen, (path or t["s"]) + "[]")
    elif k == "tuple":
        for i, e in enumerate(t["elems"]):
            field_type_closure(tys, e, seen, (path or t["s"]) + ".%d" % i)
    elif k in ("ref", "ptr"):
        field_type_closure(tys, t["to"], seen, (path or t["s"]) + ".*")
    elif k == "closure":
        for i, e in enumerate(t["upvars"]):
            field_type_closure(tys, e, seen, (path or t["s"]) + ".upvar%d" % i)
    return seen


# ---------------------------------------------------------------- renamed private items
def norm_sig(s):
    import re as _re
    s = _re.sub(r"^for<[^>]*> ", "", s)
    return _re.sub(r"&'\w+ ", "&", s)


def find_field(adt, name, ty=None, nth=0, count=None):
    """index of a struct field by today's name, else (renamed) the nth field whose type matches the regex `ty`, provided there
    are exactly `count` (default 1) fields of that type"""
    import re as _re
    from .harness import Anchor
    fields = adt["variants"][0]["fields"]
    for i, f in enumerate(fields):
        if f["name"] == name:
            return i
    if ty is not None:
        hits = [i for i, f in enumerate(fields) if _re.fullmatch(ty, f["ty"])]
        if len(hits) == (count if count is not None else 1) and nth < len(hits):
            return hits[nth]
    raise Anchor("field %s not found" % name)


def find_fn(crate, today, sig, scope=None):
    """definition path of a private function: today's path if it still exists, else the only private function (whose path
    starts with `scope`) with a body and the given signature regex"""
    import re as _re
    from .harness import Anchor
    have = {b["def"] for b in crate.bodies.values()}
    if today in have:
        return today
    pat = _re.compile(sig)
    cands = [f["path"] for f in crate.facts["fns"] if not f["pub"] and f["has_body"] and f["path"] in have and not f["path"].startswith("<")
             and pat.fullmatch(norm_sig(f["sig"]))]
    hits = [p_ for p_ in cands if scope is None or p_.startswith(scope)]
    if len(hits) != 1 and scope is not None:
        # moved out of the type's impl block into another module: the signature must then single it out in the whole crate
        # among the functions that mention the type's name
        ident = scope.split("::")[-1]
        hits = [f["path"] for f in crate.facts["fns"] if f["path"] in cands and ident in f["sig"]]
    if len(hits) != 1:
        raise Anchor("no function %s and %d private functions of signature %s" % (today, len(hits), sig))
    return hits[0]


def find_method(crate, today, type_ident, method):
    """definition path of a (public) inherent method that may have moved to an impl block in another module: today's path,
    else the only function named `method` whose path mentions an impl for / of `type_ident`"""
    from .harness import Anchor
    have = {b["def"] for b in crate.bodies.values()}
    if today in have:
        return today
    hits = sorted({d for d in have if d.split("::")[-1] == method and type_ident in d and "{closure" not in d})
    if len(hits) != 1:
        raise Anchor("method %s of %s not found (%d candidates)" % (method, type_ident, len(hits)))
    return hits[0]
