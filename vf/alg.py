"""GF(2) linear algebra and polynomial arithmetic on statically extracted matrices.

Matrices are lists of n ints (row i = set of input bits feeding output bit i).
Polynomials over GF(2) are ints (bit k = coefficient of x^k).
"""

# ------------------------------------------------------------------ matrices


def transpose(rows, ncols=None):
    n = len(rows)
    ncols = ncols if ncols is not None else n
    cols = [0] * ncols
    for i, r in enumerate(rows):
        j = 0
        while r:
            if r & 1:
                cols[j] |= 1 << i
            r >>= 1
            j += 1
    return cols


def matvec_cols(cols, v):
    """M*v using the column representation of M"""
    acc = 0
    j = 0
    while v:
        if v & 1:
            acc ^= cols[j]
        v >>= 1
        j += 1
    return acc


def rank(rows):
    rows = [r for r in rows if r]
    rk = 0
    basis = {}  # pivot bit -> row
    for r in rows:
        while r:
            p = r.bit_length() - 1
            b = basis.get(p)
            if b is None:
                basis[p] = r
                rk += 1
                break
            r ^= b
    return rk


def identity(n):
    return [1 << i for i in range(n)]


def matmul(a_rows, b_rows):
    """(A*B) rows: row i of A selects rows of B"""
    out = []
    for r in a_rows:
        acc = 0
        j = 0
        while r:
            if r & 1:
                acc ^= b_rows[j]
            r >>= 1
            j += 1
        out.append(acc)
    return out


def solve(cols, target):
    """find x with sum_{j in x} cols[j] == target (cols: list of ints), or None"""
    n = len(cols)
    # eliminate on augmented vectors (col value, combination mask)
    basis = {}
    for j, c in enumerate(cols):
        comb = 1 << j
        while c:
            p = c.bit_length() - 1
            b = basis.get(p)
            if b is None:
                basis[p] = (c, comb)
                break
            c ^= b[0]
            comb ^= b[1]
    x = 0
    t = target
    while t:
        p = t.bit_length() - 1
        b = basis.get(p)
        if b is None:
            return None
        t ^= b[0]
        x ^= b[1]
    return x


# --------------------------------------------------------------- polynomials


def pdeg(p):
    return p.bit_length() - 1


def pmod(a, m):
    dm = pdeg(m)
    while a and pdeg(a) >= dm:
        a ^= m << (pdeg(a) - dm)
    return a


def pmul(a, b):
    r = 0
    while b:
        if b & 1:
            r ^= a
        a <<= 1
        b >>= 1
    return r


def pmulmod(a, b, m):
    # carry-less multiply with interleaved reduction
    dm = pdeg(m)
    r = 0
    a = pmod(a, m)
    while b:
        if b & 1:
            r ^= a
        b >>= 1
        a <<= 1
        if (a >> dm) & 1:
            a ^= m
    return r


def psqmod(a, m):
    # squaring in GF(2)[x]: spread bits, then reduce
    s = 0
    i = 0
    while a:
        if a & 1:
            s |= 1 << (2 * i)
        a >>= 1
        i += 1
    return pmod(s, m)


def ppowmod_x(e, m):
    """x^e mod m"""
    r = 1
    base = 2  # x
    base = pmod(base, m)
    while e:
        if e & 1:
            r = pmulmod(r, base, m)
        base = psqmod(base, m)
        e >>= 1
    return r


def x_pow_2k_mod(k, m):
    """x^(2^k) mod m by k squarings"""
    r = pmod(2, m)
    for _ in range(k):
        r = psqmod(r, m)
    return r


def berlekamp_massey(seq):
    """minimal LFSR (connection polynomial C, length L) of a bit sequence;
    returns the *characteristic* polynomial as int of degree L"""
    n = len(seq)
    c = 1
    b = 1
    L = 0
    m = -1
    for i in range(n):
        d = seq[i]
        for j in range(1, L + 1):
            if (c >> j) & 1:
                d ^= seq[i - j]
        if d:
            t = c
            c ^= b << (i - m)
            if 2 * L <= i:
                L = i + 1 - L
                m = i
                b = t
    # connection polynomial c(x) = 1 + c1 x + ... + cL x^L with s_i = sum c_j s_{i-j}
    # characteristic polynomial: x^L * c(1/x)
    chi = 0
    for j in range(L + 1):
        if (c >> j) & 1:
            chi |= 1 << (L - j)
    return chi, L


def minimal_polynomial(rows, n, probes=((1, 1),)):
    """minimal polynomial of the n x n matrix via Krylov sequences u^T T^k v"""
    cols = transpose(rows, n)
    best = 1
    for u, v in probes:
        seq = []
        x = v
        for _ in range(2 * n + 2):
            seq.append(bin(u & x).count("1") & 1)
            x = matvec_cols(cols, x)
        chi, L = berlekamp_massey(seq)
        # lcm with previous
        best = plcm(best, chi)
    return best


def pgcd(a, b):
    while b:
        a, b = b, pmod(a, b)
    return a


def pdivexact(a, b):
    q = 0
    db = pdeg(b)
    while a and pdeg(a) >= db:
        s = pdeg(a) - db
        q |= 1 << s
        a ^= b << s
    assert a == 0
    return q


def plcm(a, b):
    return pdivexact(pmul(a, b), pgcd(a, b))


def poly_eval_matrix_vec(p, cols, v):
    """p(T) * v"""
    acc = 0
    x = v
    while p:
        if p & 1:
            acc ^= x
        p >>= 1
        if p:
            x = matvec_cols(cols, x)
    return acc


def charpoly_hessenberg(rows, n):
    """characteristic polynomial by an independent route: det(xI - T) through the
    Krylov basis of a cyclic vector (if one exists) -- here simply via the
    Frobenius form: find v cyclic, express T^n v in the basis v..T^(n-1)v."""
    cols = transpose(rows, n)
    for seed in (1, 3, 5, 0x9E3779B97F4A7C15, (1 << n) - 1):
        v = seed & ((1 << n) - 1)
        if not v:
            continue
        ks = []
        x = v
        for _ in range(n):
            ks.append(x)
            x = matvec_cols(cols, x)
        if rank(list(ks)) < n:
            continue
        comb = solve(ks, x)  # T^n v = sum comb_j T^j v
        if comb is None:
            continue
        return (1 << n) | comb
    return None


# ---------------------------------------------- factorisation of 2^n - 1, certified

MERSENNE_FACTORS_512 = [3, 5, 17, 257, 65537, 641, 6700417, 274177, 67280421310721,
                        59649589127497217, 5704689200685129054721, 1238926361552897,
                        93461639715357977769163558199606896584051237541638188580280321]

# Pratt certificates: n -> (witness a, prime factors of n-1); primes below 2^16 by trial division
PRATT = {65537: (3, [2]), 6700417: (5, [2, 3, 17449]), 274177: (5, [2, 3, 7, 17]), 67280421310721: (3, [2, 5, 47, 373, 2998279]), 2998279: (3, [2, 3, 166571]), 166571: (2, [2, 5, 16657]), 59649589127497217: (3, [2, 116503103764643]), 116503103764643: (2, [2, 7, 449, 18533742247]), 18533742247: (6, [2, 3, 181, 1896229]), 1896229: (2, [2, 3, 52673]), 5704689200685129054721: (21, [2, 3, 5, 12497, 733803839347]), 733803839347: (2, [2, 3, 2203, 55515497]), 55515497: (3, [2, 6939437]), 6939437: (2, [2, 7, 139, 1783]), 1238926361552897: (3, [2, 157, 3853149761]), 3853149761: (6, [2, 5, 719, 16747]), 93461639715357977769163558199606896584051237541638188580280321: (43, [2, 3, 5, 7, 13, 31618624099079, 1057372046781162536274034354686893329625329]), 31618624099079: (17, [2, 1789, 10079, 876769]), 876769: (7, [2, 3, 9133]), 1057372046781162536274034354686893329625329: (11, [2, 3, 8861, 10608557, 25353082741699, 9243081088796207]), 10608557: (2, [2, 7, 223, 1699]), 9243081088796207: (5, [2, 20939, 220714482277]), 220714482277: (5, [2, 3, 6130957841]), 6130957841: (3, [2, 5, 7, 10948139]), 10948139: (2, [2, 23, 29, 283]), 25353082741699: (2, [2, 3, 16879, 83447159]), 83447159: (11, [2, 41723579]), 41723579: (2, [2, 13, 1604753]), 1604753: (3, [2, 100297]), 100297: (13, [2, 3, 7, 199])}

_PRIME_OK = {}


def is_prime_certified(n):
    """primality by trial division (n < 2^32) or by a stored Pratt certificate, re-verified"""
    if n in _PRIME_OK:
        return _PRIME_OK[n]
    if n < 2:
        r = False
    elif n < (1 << 32):
        r = True
        d = 2
        while d * d <= n:
            if n % d == 0:
                r = False
                break
            d += 1 if d == 2 else 2
    else:
        cert = PRATT.get(n)
        if cert is None:
            r = False
        else:
            a, fs = cert
            m = n - 1
            rest = m
            for q in fs:
                while rest % q == 0:
                    rest //= q
            r = (rest == 1 and pow(a, m, n) == 1 and all(pow(a, m // q, n) != 1 for q in fs)
                 and all(is_prime_certified(q) for q in fs))
    _PRIME_OK[n] = r
    return r


def mersenne_prime_factors(n):
    """prime factors of 2^n - 1 for n a power of two <= 512, each certified, product re-verified"""
    assert n in (2, 4, 8, 16, 32, 64, 128, 256, 512)
    target = (1 << n) - 1
    fs = [q for q in MERSENNE_FACTORS_512 if target % q == 0]
    prod = 1
    for q in fs:
        prod *= q
    if prod != target:
        raise RuntimeError("factor table does not multiply to 2^%d-1" % n)
    for q in fs:
        if not is_prime_certified(q):
            raise RuntimeError("factor %d of 2^%d-1 has no valid primality certificate" % (q, n))
    return fs


def is_primitive(chi, n):
    """chi: degree-n polynomial over GF(2); primitive iff ord(x) = 2^n - 1"""
    if pdeg(chi) != n or not (chi & 1):
        return False, "degree %d, constant term %d" % (pdeg(chi), chi & 1)
    order = (1 << n) - 1
    # x^(2^n) == x  <=>  x^(2^n - 1) == 1 (x invertible because constant term is 1)
    if x_pow_2k_mod(n, chi) != 2:
        return False, "x^(2^n) != x (mod chi): not a product of distinct irreducibles of degree dividing n"
    for q in mersenne_prime_factors(n):
        if ppowmod_x(order // q, chi) == 1:
            return False, "x^((2^n-1)/%d) == 1: order of x divides (2^n-1)/%d" % (q, q)
    return True, "order of x is 2^%d-1" % n
