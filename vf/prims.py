"""Primitive table: the meaning of `core` (and a few rand_core) functions for the
abstract evaluator, keyed by resolved def-path.  Each handler has the
signature h(ev, st, ctx) -> value.  A callee that is neither inlinable nor in
this table becomes an opaque call (opaque_call) and is logged."""
import re
from . import terms as T
from .evalmir import (Struct, UNIT, EnumV, ArrV, Ref, FnV, ClosureV, PrimV, OpaqueV, Lazy,
                      Unsupported, NORETURN, AssertRec, CallCtx)

TABLE = {}
PATTERNS = []


def prim(*names):
    def deco(f):
        for n in names:
            if n.startswith("re:"):
                PATTERNS.append((re.compile(n[3:] + r"\Z"), f))
            else:
                TABLE[n] = f
        return f
    return deco


_LOOKUP_CACHE = {}


def lookup(table, callee):
    keys = (callee.get("rdef"), callee.get("def"))
    for key in keys:
        if key:
            h = table.get(key)
            if h is not None:
                return h
    if callee.get("res"):
        return None  # a body is available: inline it rather than pattern-match
    for key in keys:
        if not key:
            continue
        if key in _LOOKUP_CACHE:
            h = _LOOKUP_CACHE[key]
        else:
            h = None
            for rx, f in PATTERNS:
                if rx.match(key):
                    h = f
                    break
            _LOOKUP_CACHE[key] = h
        if h is not None:
            return h
    return None


# ------------------------------------------------------------------ helpers

def deref(ev, st, v):
    if isinstance(v, Ref):
        if v.win is not None:
            return slice_value(ev, st, v)
        return ev.load(st, v)
    return v


def slice_value(ev, st, r):
    """materialise the window of a slice ref as an ArrV (constant window only)"""
    start, n = win_const(r)
    arr = ev.load(st, Ref(r.obj, r.path))
    if not isinstance(arr, ArrV):
        raise Unsupported("slice of %r" % (arr,))
    if start == 0 and n == arr.n:
        return arr
    return ArrV(n, arr.w, None, None, {i: arr.get(start + i) for i in range(n)})


def win_const(r):
    if r.win is None:
        raise Unsupported("not a slice reference")
    s, n = r.win
    if isinstance(s, T.T):
        if s.op != "const":
            raise Unsupported("slice with symbolic start")
        s = s.aux
    if isinstance(n, T.T):
        if n.op != "const":
            raise Unsupported("slice with symbolic length")
        n = n.aux
    if n is None:
        raise Unsupported("slice with unknown length")
    return s, n


def as_slice(ev, st, r):
    """Ref to array or slice -> Ref with window"""
    if not isinstance(r, Ref):
        raise Unsupported("expected reference, got %r" % (r,))
    if r.win is not None:
        return r
    arr = ev.load(st, r)
    if isinstance(arr, ArrV):
        return Ref(r.obj, r.path, (0, arr.n), r.mut)
    raise Unsupported("as_slice of %r" % (arr,))


def tconst(v, w=64):
    return v if isinstance(v, T.T) else T.const(v, w)


def some(v):
    return EnumV(1, {1: (v,)})


NONE = EnumV(0, {0: ()})


def ok(v):
    return EnumV(0, {0: (v,)})


def err(v):
    return EnumV(1, {1: (v,)})


def body_for_def(ev, defpath):
    for k, b in ev.bodies.items():
        if b["def"] == defpath:
            return k
    return None


def call_closure(ev, st, clo, args, depth):
    if isinstance(clo, FnV):
        ctx = CallCtx(clo.callee, list(args), [None] * len(args), None, ["?", "?", False], None)
        return ev.invoke(st, ctx)
    if not isinstance(clo, ClosureV):
        raise Unsupported("call of non-closure %r" % (clo,))
    key = clo.key if clo.key in ev.bodies else body_for_def(ev, clo.defpath)
    if key is None:
        raise Unsupported("no body for closure %s" % clo.defpath)
    body = ev.bodies[key]
    envty = ev.tys[body["locals"][1]]
    if envty["k"] == "ref":
        oid = st.alloc(clo, "clo")
        env = Ref(oid, ())
    else:
        env = clo
    return ev.call_body(st, key, [env] + list(args), depth + 1)


def precondition(ev, st, ctx, what, cond):
    """a library precondition whose violation panics; recorded like an Assert"""
    okd = cond is T.TRUE
    how = "const"
    if not okd and cond.op != "const":
        okd, how = discharge(ev, st, cond, T.TRUE)
    key = ctx.fr.body["key"] if ctx.fr is not None else "?"
    ev.asserts.append(AssertRec(body=key, bb=-1, kind="pre:" + what, span=ctx.span, cond=cond, expected=True,
                                ops=[], chain=tuple(ev.chain), discharged=okd, how=how))
    if cond.op != "const":
        from .evalmir import add_assume
        add_assume(st, cond)


# ---------------------------------------------------------- range reasoning

_AIDX = {}


def assume_index(assume):
    """constraints on individual terms extracted from a tuple of assumptions: term id -> [(kind, const)]"""
    k = id(assume)
    e = _AIDX.get(k)
    if e is not None and e[0] is assume:
        return e[1], e[2]
    idx = {}
    aset = set()
    for a in assume:
        aset.add(a.id)
        neg = False
        x = a
        if x.op == "aff" and x.w == 1 and (x.aux[0] & 1) and len(x.args) == 1 and x.aux[1] == (1,):
            neg = True
            x = x.args[0]
        if x.op == "eqz":
            idx.setdefault(x.args[0].id, []).append(("ne0" if neg else "eq0", 0))
        elif x.op == "ult":
            p, q = x.args
            if q.op == "const":
                idx.setdefault(p.id, []).append(("ge" if neg else "lt", q.aux))
            if p.op == "const":
                idx.setdefault(q.id, []).append(("le" if neg else "gt", p.aux))
            if p.op != "const" and q.op != "const":
                # two variables: each is bounded through the other one's interval
                idx.setdefault(p.id, []).append(("gev" if neg else "ltv", q))
                idx.setdefault(q.id, []).append(("lev" if neg else "gtv", p))
    if len(_AIDX) > 20000:
        _AIDX.clear()
    _AIDX[k] = (assume, idx, aset)
    return idx, aset


_ARANGE_MEMO = {}


def arange(ev, st, t, depth=0):
    """unsigned interval of t refined by the path assumptions of st"""
    if t.op == "const":
        return t.aux, t.aux
    mk = (id(st.assume), t.id)
    hit = _ARANGE_MEMO.get(mk)
    if hit is not None and hit[0] is st.assume:
        return hit[1]
    r = _arange(ev, st, t, depth)
    if len(_ARANGE_MEMO) > 300000:
        _ARANGE_MEMO.clear()
    _ARANGE_MEMO[mk] = (st.assume, r)
    return r


def _arange(ev, st, t, depth=0):
    lo, hi = T.urange(t)
    idx, aset = assume_index(st.assume) if st.assume else ({}, set())
    for kind, c in idx.get(t.id, ()):
        if kind == "lt":
            hi = min(hi, c - 1)
        elif kind == "ge":
            lo = max(lo, c)
        elif kind == "gt":
            lo = max(lo, c + 1)
        elif kind == "le":
            hi = min(hi, c)
        elif kind == "ne0":
            lo = max(lo, 1)
        elif kind == "eq0":
            lo, hi = 0, 0
        elif kind in ("ltv", "gev", "gtv", "lev") and depth < 3:
            ol, oh = T.urange(c) if depth >= 2 else arange(ev, st, c, depth + 3)
            if kind == "ltv" and oh >= 1:
                hi = min(hi, oh - 1)
            elif kind == "gev":
                lo = max(lo, ol)
            elif kind == "gtv":
                lo = max(lo, ol + 1)
            elif kind == "lev":
                hi = min(hi, oh)
    if depth == 0 and st.assume and lo == 0 and (t.op in ("sym", "rng", "res", "select") or (t.op == "aff" and t.w <= 16 and len(t.args) == 1)):
        z = T.eqz(t)
        if z.op != "const":
            if T.bnot(z).id in aset:
                lo = max(lo, 1)
            elif z.id in aset:
                hi = 0
    if depth < 6:
        if t.op == "uabs":
            a, b = srange_of(ev, st, t.args[0])
            m = max(abs(a), abs(b))
            l0 = 0 if a <= 0 <= b else min(abs(a), abs(b))
            lo, hi = max(lo, l0), min(hi, m)
        if t.op == "ring" and st.assume and t.w >= 8:
            # a value whose sign was tested on this path: t = -y with y < 0, or t = y with y >= 0 (signed)
            for a_ in st.assume:
                y = None
                if a_.op == "slt" and a_.args[1].op == "const" and a_.args[1].aux == 0 and a_.args[0].w == t.w:
                    y, negative = a_.args[0], True
                elif a_.op == "aff" and a_.w == 1 and len(a_.args) == 1 and a_.args[0].op == "slt" and (a_.aux[0] & 1):
                    q = a_.args[0]
                    if q.args[1].op == "const" and q.args[1].aux == 0 and q.args[0].w == t.w:
                        y, negative = q.args[0], False
                if y is None or y.op == "const":
                    continue
                if negative and T.add(t, y) is T.const(0, t.w):
                    sl, sh = srange_of(ev, st, y) if depth < 3 else (-(1 << (t.w - 1)), (1 << (t.w - 1)) - 1)
                    lo, hi = max(lo, 1, -sh), min(hi, -sl)
                elif not negative and t is y:
                    hi = min(hi, (1 << (t.w - 1)) - 1)
        if t.op == "ring":
            # c0 + sum ci * atom  with refined atom ranges, if no wrap
            l2 = h2 = 0
            okk = True
            for mono, co in t.aux:
                if mono == ():
                    l2 += co
                    h2 += co
                elif len(mono) == 1:
                    a, b = arange(ev, st, T._ATOM[mono[0]], depth + 1)
                    l2 += co * a
                    h2 += co * b
                else:
                    okk = False
                    break
            if okk and h2 <= T.mask(t.w):
                lo, hi = max(lo, l2), min(hi, h2)
            elif okk:
                # c - x pattern: coefficient -1
                items = dict(t.aux)
                if len(items) == 2 and () in items:
                    (mono, co), = [(m_, c_) for m_, c_ in items.items() if m_ != ()]
                    if co == T.mask(t.w) and len(mono) == 1:
                        a, b = arange(ev, st, T._ATOM[mono[0]], depth + 1)
                        c = items[()]
                        if b <= c:
                            lo, hi = max(lo, c - b), min(hi, c - a)
                # x - c pattern: c0 = 2^w - c and single atom with coefficient 1
                items = dict(t.aux)
                if len(items) == 2 and () in items:
                    (mono, co), = [(m, c) for m, c in items.items() if m != ()]
                    if co == 1 and len(mono) == 1:
                        a, b = arange(ev, st, T._ATOM[mono[0]], depth + 1)
                        c = (1 << t.w) - items[()]
                        if a >= c:
                            lo, hi = max(lo, a - c), min(hi, b - c)
        elif t.op == "aff" and len(t.args) == 1 and t.aux[0] == 0:
            at = t.args[0]
            p = t.aux[1][0]
            if p == T.ident_packed(t.w, at.w):  # zext or trunc
                a, b = arange(ev, st, at, depth + 1)
                if b <= T.mask(t.w):
                    lo, hi = max(lo, a), min(hi, b)
            else:
                # pure right shift: value = atom >> k
                cs = T.cols(p, t.w, at.w)
                k = None
                for j, c in enumerate(cs):
                    if c:
                        if c & (c - 1):
                            k = None
                            break
                        d = j - (c.bit_length() - 1)
                        if k is None:
                            k = d
                        elif k != d:
                            k = None
                            break
                if k is not None and k > 0 and all(cs[j] == (1 << (j - k)) if j >= k and j - k < t.w else cs[j] == 0 for j in range(at.w)):
                    a, b = arange(ev, st, at, depth + 1)
                    lo, hi = max(lo, a >> k), min(hi, b >> k)
        elif t.op == "udiv":
            a = arange(ev, st, t.args[0], depth + 1)
            b = arange(ev, st, t.args[1], depth + 1)
            if b[0] > 0:
                lo, hi = max(lo, a[0] // b[1]), min(hi, a[1] // b[0])
        elif t.op == "lz":
            a = arange(ev, st, t.args[0], depth + 1)
            wx = t.args[0].w
            lo, hi = max(lo, wx - a[1].bit_length()), min(hi, wx - a[0].bit_length())
        elif t.op == "ite":
            c = t.args[0]
            sa = st.fork()
            sa.assume = st.assume + (c,)
            sb = st.fork()
            sb.assume = st.assume + (T.bnot(c),)
            a = arange(ev, sa, t.args[1], depth + 1)
            b = arange(ev, sb, t.args[2], depth + 1)
            lo, hi = max(lo, min(a[0], b[0])), min(hi, max(a[1], b[1]))
        elif t.op == "select" and t.args[0].op == "arrlit":
            ia, ib = arange(ev, st, t.args[1], depth + 1)
            elems = t.args[0].args
            if ib < len(elems) and all(e.op == "const" for e in elems[ia:ib + 1]):
                vals = [e.aux for e in elems[ia:ib + 1]]
                lo, hi = max(lo, min(vals)), min(hi, max(vals))
    return lo, hi


def srange_of(ev, st, t):
    """signed interval [lo, hi] of a w-bit term"""
    w = t.w
    half = 1 << (w - 1)
    if t.op == "aff":
        for k in (8, 16, 32):
            if k < w:
                u = T.trunc(t, k)
                if u is not t and T.sext(u, w) is t:
                    return srange_of(ev, st, u)  # sign extension keeps the signed value
    if t.op == "ring":
        lo = hi = 0
        okk = True
        for mono, co in t.aux:
            sc = co - (1 << w) if co >= half else co
            if mono == ():
                lo += sc
                hi += sc
            elif len(mono) == 1:
                a, b = srange_of(ev, st, T._ATOM[mono[0]]) if T._ATOM[mono[0]].w == w else arange(ev, st, T._ATOM[mono[0]])
                lo += min(sc * a, sc * b)
                hi += max(sc * a, sc * b)
            else:
                okk = False
                break
        if okk and lo >= -half and hi < half:
            return lo, hi
    ulo, uhi = arange(ev, st, t)
    if uhi < half:
        return ulo, uhi
    if ulo >= half:
        return ulo - (1 << w), uhi - (1 << w)
    flipped = T.xor(t, T.const(half, w))
    lo, hi = arange(ev, st, flipped)
    return lo - half, hi - half


def refine_cmp(ev, st, r, a, b, signed):
    """r = ult/slt(a,b) not decided structurally: try the path assumptions"""
    if r in st.assume:
        return T.TRUE
    if T.bnot(r) in st.assume:
        return T.FALSE
    if signed:
        ra, rb = srange_of(ev, st, a), srange_of(ev, st, b)
    else:
        ra, rb = arange(ev, st, a), arange(ev, st, b)
    if ra[1] < rb[0]:
        return T.TRUE
    if ra[0] >= rb[1]:
        return T.FALSE
    return r


def discharge(ev, st, cond, exp):
    """is cond == exp implied by the assumptions?"""
    want = cond if exp is T.TRUE else T.bnot(cond)
    if want is T.TRUE:
        return True, "const"
    if want in st.assume:
        return True, "assumed"
    x = want
    neg = False
    if x.op == "aff" and x.w == 1 and (x.aux[0] & 1) and len(x.args) == 1 and x.aux[1] == (1,):
        neg = True
        x = x.args[0]
    if x.op in ("ult", "slt"):
        r = refine_cmp(ev, st, x, x.args[0], x.args[1], x.op == "slt")
        if r.op == "const":
            val = (r is T.TRUE) != neg
            return val, "range"
    if x.op == "and1" and not neg:
        if all(discharge(ev, st, y, T.TRUE)[0] for y in x.args):
            return True, "range"
    if x.op == "eqz":
        lo, hi = arange(ev, st, x.args[0])
        if lo > 0:
            return (neg is True), "range"  # never zero
        if hi == 0:
            return (neg is False), "range"
        t = x.args[0]
        if t.op == "ring" and t.w >= 8:
            # u + c == 0  iff  u == -c: impossible when -c lies outside the signed or the unsigned interval of u (x == MIN after a
            # subtraction of sign-extended halves, ...)
            c = dict(t.aux).get((), 0)
            if c:
                u = T.sub(t, T.const(c, t.w))
                target = (-c) & T.mask(t.w)
                ul, uh = arange(ev, st, u)
                sl, sh = srange_of(ev, st, u)
                if not (ul <= target <= uh) or not (sl <= T.to_signed(target, t.w) <= sh):
                    return (neg is True), "range"
    return False, "open"


def overflow_flag(ev, st, base, a, b, signed):
    w = a.w
    m = T.mask(w)
    if st is None:
        st_assume = False
    if signed:
        ra = srange_of(ev, st, a) if st is not None else None
        rb = srange_of(ev, st, b) if st is not None else None
        if ra is None:
            return T.atom("ovf", 1, (a, b), (base, True))
        lo_, hi_ = -(1 << (w - 1)), (1 << (w - 1)) - 1
        if base == "Add":
            lo, hi = ra[0] + rb[0], ra[1] + rb[1]
        elif base == "Sub":
            lo, hi = ra[0] - rb[1], ra[1] - rb[0]
        else:
            ps = [x * y for x in ra for y in rb]
            lo, hi = min(ps), max(ps)
        if lo >= lo_ and hi <= hi_:
            return T.FALSE
        if hi < lo_ or lo > hi_:
            return T.TRUE
        return T.atom("ovf", 1, (a, b), (base, True))
    ra = arange(ev, st, a) if st is not None else T.urange(a)
    rb = arange(ev, st, b) if st is not None else T.urange(b)
    if base == "Add":
        if ra[1] + rb[1] <= m:
            return T.FALSE
        if ra[0] + rb[0] > m:
            return T.TRUE
    elif base == "Sub":
        if ra[0] >= rb[1]:
            return T.FALSE
        if ra[1] < rb[0]:
            return T.TRUE
        if st is not None and st.assume:
            lt = T.ult(a, b)  # a - b wraps exactly when a < b: the path may have tested that (`if a >= b { a - b }`)
            if T.bnot(lt) in st.assume or T.ult(b, a) in st.assume:
                return T.FALSE
            if lt in st.assume:
                return T.TRUE
    else:
        if ra[1] * rb[1] <= m:
            return T.FALSE
        if ra[0] * rb[0] > m:
            return T.TRUE
    return T.atom("ovf", 1, (a, b), (base, False))


# ------------------------------------------------------------ opaque calls

def value_sig(ev, st, v, out, depth=0):
    """flatten a value into a list of terms that determine it (for opaque call atoms)"""
    if depth > 8:
        out.append(T.sym("<deep>", 1))
        return
    if v is None:
        return
    if isinstance(v, T.T):
        out.append(v)
    elif isinstance(v, Struct):
        for f in v.fields:
            value_sig(ev, st, f, out, depth + 1)
    elif isinstance(v, ArrV):
        if v.w is not None:
            out.append(v.to_term())
        else:
            for i in range(v.n):
                value_sig(ev, st, v.get(i), out, depth + 1)
    elif isinstance(v, Ref):
        if v.win is not None:
            try:
                value_sig(ev, st, slice_value(ev, st, v), out, depth + 1)
            except Unsupported:
                value_sig(ev, st, ev.load(st, Ref(v.obj, v.path)), out, depth + 1)
                for x in v.win:
                    out.append(tconst(x) if x is not None else T.sym("<len?>", 64))
        else:
            value_sig(ev, st, ev.load(st, v), out, depth + 1)
    elif isinstance(v, EnumV):
        out.append(tconst(v.discr))
        for k in sorted(v.payloads):
            for f in v.payloads[k]:
                value_sig(ev, st, f, out, depth + 1)
    elif isinstance(v, ClosureV):
        out.append(T.sym("closure:" + v.defpath, 1))
        for f in v.upvars:
            value_sig(ev, st, f, out, depth + 1)
    elif isinstance(v, OpaqueV):
        out.append(T.sym("opaque:%s" % (v.token,), 1))
    elif isinstance(v, FnV):
        out.append(T.sym("fn:" + v.callee.get("path", "?"), 1))
    elif isinstance(v, Lazy):
        out.append(T.sym("lazy:" + v.name, 1))
    elif isinstance(v, PrimV):
        out.append(T.sym("prim:" + v.kind, 1))
        if v.kind == "byteview":
            value_sig(ev, st, v.data[0], out, depth + 1)
        elif v.kind == "castptr":
            value_sig(ev, st, v.data[0], out, depth + 1)
    else:
        out.append(T.sym("<%s>" % type(v).__name__, 1))


def fresh_value(ev, tyid, call, label, depth=0, st=None):
    """a value of type tyid determined by the opaque call atom `call`"""
    if tyid is None:
        return OpaqueV(None, "%s#%d" % (label, call.id))
    t = ev.tys[tyid]
    if t["k"] in ("ref", "ptr") and st is not None and depth < 3:
        inner = fresh_value(ev, t["to"], call, label + ".*", depth + 1, st)
        return Ref(st.alloc(inner, "fresh"), (), None, t["mut"])
    w = ev.scalar_width(tyid)
    if w is not None:
        return T.atom("res", w, (call,), label)
    k = t["k"]
    if k == "tuple":
        if not t["elems"]:
            return UNIT
        return Struct([fresh_value(ev, e, call, "%s.%d" % (label, i), depth + 1) for i, e in enumerate(t["elems"])])
    if k == "adt" and depth < 6:
        if t["adt_kind"] == "struct":
            fs = t["variants"][0]["fields"]
            if len(fs) == 1:
                return fresh_value(ev, fs[0]["ty"], call, label, depth + 1)
            return Struct([fresh_value(ev, f["ty"], call, "%s.%s" % (label, f["name"]), depth + 1) for f in fs])
        if t["adt_kind"] == "enum":
            d = T.atom("res", 64, (call,), label + ".discr")
            nv = max(1, len(t["variants"]))
            if d._rng is None and d._kb is None:
                # a discriminant is one of the variant indices: tests like `== 1`, `!= 0`, `is_err` coincide for a two-variant enum
                d._rng = (0, nv - 1)
                d._kb = (T.mask(64) & ~T.mask((nv - 1).bit_length()), 0)
            pay = {}
            for i, v in enumerate(t["variants"]):
                pay[i] = tuple(fresh_value(ev, f["ty"], call, "%s.%s.%s" % (label, v["name"], f["name"]), depth + 1) for f in v["fields"])
            return EnumV(d, pay)
    if k == "array":
        ew = ev.scalar_width(ev.strip_newtypes(t["elem"]))
        if ew is not None:
            return ArrV(t["len"], ew, None, T.atom("resarr", ew, (call,), (label, t["len"])), {})
    return OpaqueV(tyid, "%s#%d" % (label, call.id))


WORLD_DEFS = ("core::ops::Fn::call", "core::ops::FnMut::call_mut", "core::ops::FnOnce::call_once")


def opaque_call(ev, st, ctx, why):
    callee = ctx.callee
    name = callee.get("rpath") or callee.get("path") or "?"
    sig = []
    argsigs = []
    for a in ctx.args:
        n0 = len(sig)
        value_sig(ev, st, a, sig)
        argsigs.append(tuple(sig[n0:]))
    unresolved = callee.get("res") is None and callee.get("why") == "unresolved"
    kr = callee.get("rkrate") or callee.get("krate")
    if callee.get("res") is None and kr not in (None, "core", "alloc", "rand_core", "rand_xoshiro", "rand_xorshift", "rand_hc",
                                                 "rand_isaac", "rand_jitter", "serde", "serde_core"):
        unresolved = True  # code outside core (std, log, ...) may consult the environment: thread the world token
    if kr in ev.neutral_crates:
        unresolved = False  # the rule using this evaluator argues separately that these calls cannot influence the operation
    if unresolved:
        sig.append(st.world)
    call = T.atom("call", 1, tuple(sig), name)
    if unresolved:
        st.world = T.atom("tick", 1, (st.world, call))
    ev.calls.append((ctx.fr.body["key"] if ctx.fr else "?", name, ctx.span, why, call, argsigs))
    # effects on &mut arguments
    for i, (a, aty) in enumerate(zip(ctx.args, ctx.argtys)):
        havoc_arg(ev, st, a, aty, call, i)
    return fresh_value(ev, ctx.dest_ty, call, "ret", 0, st)


def havoc_arg(ev, st, a, aty, call, i):
    if isinstance(a, PrimV) and a.kind == "byteview":
        ref, ew, nbytes = a.data
        arr = ev.load(st, ref)
        eff = T.atom("effbytes", 8, (call,), (i, nbytes))
        words = T.atom("le_words", ew, (eff,), ew)
        ev.store(st, ref, ArrV(arr.n, ew, None, words, {}))
        return
    if not isinstance(a, Ref):
        return
    mut = a.mut
    if aty is not None:
        t = ev.tys[aty]
        if t["k"] in ("ref", "ptr"):
            mut = t["mut"]
    if not mut:
        return
    if a.win is not None:
        arr = ev.load(st, Ref(a.obj, a.path))
        try:
            s, n = win_const(a)
        except Unsupported:
            ev.store(st, Ref(a.obj, a.path), ArrV(arr.n, arr.w, None, T.atom("effarr", arr.w or 8, (call,), (i, None)), {}))
            return
        eff = T.atom("effarr", arr.w or 8, (call,), (i, n))
        for j in range(n):
            arr = arr.set(s + j, T.select(eff, T.const(j, 64), arr.w))
        ev.store(st, Ref(a.obj, a.path), arr)
        return
    pointee = None
    if aty is not None:
        pointee = ev.tys[aty].get("to")
    old = ev.load(st, a)
    ev.store(st, a, fresh_like(ev, old, pointee, call, "eff%d" % i))


def fresh_like(ev, old, tyid, call, label):
    if tyid is not None and ev.tys[tyid]["k"] not in ("param", "alias", "dyn", "other"):
        return fresh_value(ev, tyid, call, label)
    if isinstance(old, T.T):
        return T.atom("res", old.w, (call,), label)
    if isinstance(old, Struct):
        return Struct([fresh_like(ev, f, None, call, "%s.%d" % (label, i)) for i, f in enumerate(old.fields)])
    if isinstance(old, ArrV) and old.w is not None:
        return ArrV(old.n, old.w, None, T.atom("resarr", old.w, (call,), (label, old.n)), {})
    return OpaqueV(tyid, "%s#%d" % (label, call.id))


def merge_prim(ev, c, a, b):
    if a.kind == "sliceiter" and a.data[0].same(b.data[0]) and a.data[2] == b.data[2]:
        pa, pb = tconst(a.data[1]), tconst(b.data[1])
        return PrimV("sliceiter", (a.data[0], T.ite(c, pa, pb), a.data[2]))
    return PrimV("phi", (c, a, b))


# ================================================================ integers

def _argT(ev, st, v):
    v = deref(ev, st, v) if isinstance(v, Ref) else v
    if not isinstance(v, T.T):
        raise Unsupported("expected scalar, got %r" % (v,))
    return v


@prim("re:core::num::<impl [iu](8|16|32|64|128|size)>::wrapping_add")
def p_wadd(ev, st, ctx):
    return T.add(ctx.args[0], ctx.args[1])


@prim("re:core::num::<impl [iu](8|16|32|64|128|size)>::wrapping_sub")
def p_wsub(ev, st, ctx):
    return T.sub(ctx.args[0], ctx.args[1])


@prim("re:core::num::<impl [iu](8|16|32|64|128|size)>::wrapping_mul")
def p_wmul(ev, st, ctx):
    return T.mul(ctx.args[0], ctx.args[1])


@prim("re:core::num::<impl [iu](8|16|32|64|128|size)>::wrapping_neg")
def p_wneg(ev, st, ctx):
    return T.neg(ctx.args[0])


@prim("re:core::num::<impl u(8|16|32|64|128|size)>::rotate_left")
def p_rotl(ev, st, ctx):
    a, k = ctx.args
    if k.op == "const":
        return T.rotl(a, k.aux % a.w)
    return T.rotl_var(a, k)


@prim("re:core::num::<impl u(8|16|32|64|128|size)>::rotate_right")
def p_rotr(ev, st, ctx):
    a, k = ctx.args
    if k.op == "const":
        return T.rotr(a, k.aux % a.w)
    return T.rotr_var(a, k)


@prim("re:core::num::<impl [iu](8|16|32|64|128|size)>::leading_zeros")
def p_lz(ev, st, ctx):
    return T.lz(ctx.args[0])


@prim("re:core::num::<impl i(8|16|32|64|128|size)>::unsigned_abs")
def p_uabs(ev, st, ctx):
    return T.uabs(ctx.args[0])


@prim("re:core::num::<impl [iu](8|16|32|64|128|size)>::wrapping_sh[lr]")
def p_wrapping_shift(ev, st, ctx):
    a, k = ctx.args
    left = (ctx.callee.get("rdef") or ctx.callee.get("def")).endswith("shl")
    signed = "impl i" in (ctx.callee.get("rdef") or ctx.callee.get("def"))
    if k.op == "const":
        n = k.aux & (a.w - 1)
        return T.shl(a, n) if left else (T.ashr(a, n) if signed else T.lshr(a, n))
    if signed and not left:
        raise Unsupported("wrapping_shr of a signed value by a variable amount")
    amt = T.and_const(k, a.w - 1)
    amt = T.trunc(amt, a.w) if amt.w > a.w else T.zext(amt, a.w)
    return T.shl_var(a, amt) if left else T.lshr_var(a, amt)


@prim("re:core::num::<impl i(8|16|32|64|128|size)>::abs")
def p_abs(ev, st, ctx):
    x = ctx.args[0]
    # #[rustc_inherit_overflow_checks]: with overflow checks on in the calling crate, abs(MIN) panics ("attempt to negate with overflow")
    if ev.crate.get("overflow_checks"):
        precondition(ev, st, ctx, "abs(x): x != MIN", T.ne(x, T.const(1 << (x.w - 1), x.w)))
    return T.uabs(x)


@prim("re:core::num::<impl i(8|16|32|64|128|size)>::wrapping_abs")
def p_wrapping_abs(ev, st, ctx):
    return T.uabs(ctx.args[0])


@prim("re:core::num::<impl [iu](8|16|32|64|128|size)>::to_le",
      "re:core::num::<impl [iu](8|16|32|64|128|size)>::from_le")
def p_to_le(ev, st, ctx):
    # little-endian target (the property's configuration set does not vary endianness)
    return ctx.args[0]


@prim("re:core::num::<impl [iu](8|16|32|64|128|size)>::to_le_bytes")
def p_to_le_bytes(ev, st, ctx):
    a = ctx.args[0]
    n = a.w // 8
    return ArrV(n, 8, None, None, {i: T.byte_of(a, i) for i in range(n)})


@prim("re:core::num::<impl [iu](8|16|32|64|128|size)>::from_le_bytes")
def p_from_le_bytes(ev, st, ctx):
    arr = ctx.args[0]
    return T.concat_bytes_le(arr.all_elems())


@prim("re:core::convert::num::<impl core::convert::From<bool> for [iu](8|16|32|64|128|size)>::from")
def p_from_bool(ev, st, ctx):
    return T.zext(ctx.args[0], ev.scalar_width(ctx.dest_ty))


@prim("re:core::num::<impl i(8|16|32|64)>::abs_diff")
def p_abs_diff_signed(ev, st, ctx):
    a, b = ctx.args
    w = a.w
    d = T.uabs(T.sub(T.sext(a, 2 * w), T.sext(b, 2 * w)))
    if d.op != "const":
        d._rng = (0, T.mask(w))  # |a - b| of two w-bit signed values is below 2^w
    return T.trunc(d, w)


@prim("re:core::num::<impl u(8|16|32|64)>::abs_diff")
def p_abs_diff_unsigned(ev, st, ctx):
    a, b = ctx.args
    return T.ite(T.ult(a, b), T.sub(b, a), T.sub(a, b))


@prim("re:core::slice::<impl \\[T\\]>::rotate_(left|right)")
def p_slice_rotate(ev, st, ctx):
    dst = as_slice(ev, st, ctx.args[0])
    k = ctx.args[1]
    if not (isinstance(k, T.T) and k.op == "const"):
        raise Unsupported("slice rotate by a symbolic amount")
    s0, n = win_const(dst)
    inb = k.aux <= n
    precondition(ev, st, ctx, "rotate: amount within the slice length", T.TRUE if inb else T.FALSE)
    if not inb:
        return NORETURN
    left = (ctx.callee.get("rdef") or ctx.callee.get("def") or "").endswith("rotate_left")
    arr = ev.load(st, Ref(dst.obj, dst.path))
    vals = [arr.get(s0 + i) for i in range(n)]
    m = k.aux if left else (n - k.aux)
    vals = vals[m:] + vals[:m]
    for i, v in enumerate(vals):
        arr = arr.set(s0 + i, v)
    ev.store(st, Ref(dst.obj, dst.path), arr)
    return UNIT


@prim("core::ptr::mut_ptr::<impl *mut T>::cast", "core::ptr::const_ptr::<impl *const T>::cast",
      "core::ptr::mut_ptr::<impl *mut T>::cast_const", "core::ptr::const_ptr::<impl *const T>::cast_mut")
def p_ptr_cast(ev, st, ctx):
    """`p.cast::<U>()` is `p as *mut U`"""
    val = ctx.args[0]
    src_ty = ctx.argtys[0] if ctx.argtys else None
    if isinstance(val, Ref) and src_ty is not None and ctx.dest_ty is not None and not ev._same_layout(src_ty, ctx.dest_ty):
        return PrimV("castptr", (val, src_ty, ctx.dest_ty))
    return val


@prim("re:core::hash::impls::<impl core::hash::Hash for (bool|char|[iu](8|16|32|64|128|size))>::hash(_slice)?",
      "re:core::hash::impls::<impl core::hash::Hash for \\[T\\]>::hash", "re:core::array::<impl core::hash::Hash for \\[T; N\\]>::hash",
      "re:<core::num::Wrapping<.*> as core::hash::Hash>::hash")
def p_hash_int(ev, st, ctx):
    """feeding plain data to a hasher: no precondition; the hasher (a type parameter) takes the effect"""
    return opaque_call(ev, st, ctx, "synthetic")


@prim("core::slice::<impl [T]>::copy_within")
def p_copy_within(ev, st, ctx):
    dst = as_slice(ev, st, ctx.args[0])
    rng = ctx.args[1]
    dest = ctx.args[2]
    if not (isinstance(rng, Struct) and len(rng.fields) == 2 and all(isinstance(f, T.T) and f.op == "const" for f in rng.fields)
            and isinstance(dest, T.T) and dest.op == "const"):
        raise Unsupported("copy_within with a symbolic range")
    a, b = rng.fields[0].aux, rng.fields[1].aux
    d = dest.aux
    s0, n = win_const(dst)
    inb = a <= b and b <= n and d <= n - (b - a) if a <= b and b <= n else False
    precondition(ev, st, ctx, "copy_within: range and destination in bounds", T.TRUE if inb else T.FALSE)
    if not inb:
        return NORETURN
    arr = ev.load(st, Ref(dst.obj, dst.path))
    vals = [arr.get(s0 + i) for i in range(a, b)]
    for i, v in enumerate(vals):
        arr = arr.set(s0 + d + i, v)
    ev.store(st, Ref(dst.obj, dst.path), arr)
    return UNIT


@prim("re:core::convert::num::<impl core::convert::From<u(8|16|32|64)> for [iu](16|32|64|128|size)>::from")
def p_from_uint(ev, st, ctx):
    w = ev.scalar_width(ctx.dest_ty)
    return T.zext(ctx.args[0], w)


@prim("re:core::convert::num::<impl core::convert::From<i(8|16|32|64)> for i(16|32|64|128|size)>::from")
def p_from_sint(ev, st, ctx):
    w = ev.scalar_width(ctx.dest_ty)
    return T.sext(ctx.args[0], w)


@prim("re:<&u(8|16|32|64|size) as core::ops::BitAnd<u(8|16|32|64|size)>>::bitand")
def p_ref_bitand(ev, st, ctx):
    return T.band(_argT(ev, st, ctx.args[0]), _argT(ev, st, ctx.args[1]))


@prim("re:core::clone::impls::<impl core::clone::Clone for (bool|[iu](8|16|32|64|128|size))>::clone")
def p_clone_scalar(ev, st, ctx):
    return deref(ev, st, ctx.args[0])


@prim("re:<(bool|[iu](8|16|32|64|128|size)) as core::default::Default>::default")
def p_default_scalar(ev, st, ctx):
    return T.const(0, ev.scalar_width(ctx.dest_ty))


# ================================================================ operators on references to integers (forwarding impls)
# `&a >> b`, `a ^ &b`, `*x + &y` ... resolve to core's forward_ref impls, which call the by-value operator; that operator inherits
# the caller's overflow checks (#[rustc_inherit_overflow_checks]).
_INT = r"&?(?:'\w+ )?[iu](8|16|32|64|128|size)"


def _ref_op(tr, m):
    return "re:<%s as core::ops::%s(?:<%s>)?>::%s" % (_INT, tr, _INT, m)


def _signed_callee(ctx):
    import re as _re
    m_ = _re.match(r"<&?(?:'\w+ )?([iu])", ctx.callee.get("rpath") or ctx.callee.get("path") or "")
    return bool(m_) and m_.group(1) == "i"


for _tr, _m, _fn in (("BitXor", "bitxor", T.xor), ("BitAnd", "bitand", T.band), ("BitOr", "bitor", T.bor)):
    prim(_ref_op(_tr, _m))((lambda fn_: (lambda ev, st, ctx: fn_(_argT(ev, st, ctx.args[0]), _argT(ev, st, ctx.args[1]))))(_fn))


def _ref_arith(base, fn_):
    def h(ev, st, ctx):
        a, b = _argT(ev, st, ctx.args[0]), _argT(ev, st, ctx.args[1])
        if ev.crate.get("overflow_checks"):
            precondition(ev, st, ctx, "%s without overflow" % base.lower(), T.bnot(overflow_flag(ev, st, base, a, b, _signed_callee(ctx))))
        return fn_(a, b)
    return h


prim(_ref_op("Add", "add"))(_ref_arith("Add", T.add))
prim(_ref_op("Sub", "sub"))(_ref_arith("Sub", T.sub))
prim(_ref_op("Mul", "mul"))(_ref_arith("Mul", T.mul))


def _ref_shift(left):
    def h(ev, st, ctx):
        a, k = _argT(ev, st, ctx.args[0]), _argT(ev, st, ctx.args[1])
        kk = T.zext(k, 64) if k.w < 64 else k
        if ev.crate.get("overflow_checks"):
            precondition(ev, st, ctx, "shift amount < %d" % a.w, T.ult(kk, T.const(a.w, kk.w)))
        if k.op == "const":
            n = k.aux & (a.w - 1)
            if left:
                return T.shl(a, n)
            return T.ashr(a, n) if _signed_callee(ctx) else T.lshr(a, n)
        if _signed_callee(ctx) and not left:
            raise Unsupported("arithmetic shift of a reference by a variable amount")
        amt = T.and_const(k, a.w - 1)
        amt = T.trunc(amt, a.w) if amt.w > a.w else T.zext(amt, a.w)
        return T.shl_var(a, amt) if left else T.lshr_var(a, amt)
    return h


prim(_ref_op("Shl", "shl"))(_ref_shift(True))
prim(_ref_op("Shr", "shr"))(_ref_shift(False))


def _assign_op(h):
    """`a op= b` on integers through the operator trait (generic code instantiated at an integer type)"""
    def g(ev, st, ctx):
        dst = ctx.args[0]
        if not isinstance(dst, Ref):
            raise Unsupported("compound assignment to %r" % (dst,))
        inner = CallCtx(ctx.callee, [deref(ev, st, dst), ctx.args[1]], ctx.argtys, ctx.dest_ty, ctx.span, ctx.fr)
        ev.store(st, dst, h(ev, st, inner))
        return UNIT
    return g


for _tr, _m, _fn in (("BitXorAssign", "bitxor_assign", T.xor), ("BitAndAssign", "bitand_assign", T.band), ("BitOrAssign", "bitor_assign", T.bor)):
    prim(_ref_op(_tr, _m))(_assign_op((lambda fn_: (lambda ev, st, ctx: fn_(_argT(ev, st, ctx.args[0]), _argT(ev, st, ctx.args[1]))))(_fn)))
prim(_ref_op("AddAssign", "add_assign"))(_assign_op(_ref_arith("Add", T.add)))
prim(_ref_op("SubAssign", "sub_assign"))(_assign_op(_ref_arith("Sub", T.sub)))
prim(_ref_op("MulAssign", "mul_assign"))(_assign_op(_ref_arith("Mul", T.mul)))
prim(_ref_op("ShlAssign", "shl_assign"))(_assign_op(_ref_shift(True)))
prim(_ref_op("ShrAssign", "shr_assign"))(_assign_op(_ref_shift(False)))


@prim("re:<&?(?:'\\w+ )?[iu](8|16|32|64|128|size) as core::ops::Not>::not")
def p_ref_not(ev, st, ctx):
    return T.bnot(_argT(ev, st, ctx.args[0]))


# ================================================================ Wrapping<T>
# Wrapping<T> is a single-field struct and therefore transparent: its values are plain scalars.

def _wr(name):
    return "re:<core::num::Wrapping<[iu](8|16|32|64|128|size)> as core::ops::%s>::%s" % name


@prim(_wr(("Add", "add")))
def p_w_add(ev, st, ctx):
    return T.add(_argT(ev, st, ctx.args[0]), _argT(ev, st, ctx.args[1]))


@prim(_wr(("Sub", "sub")))
def p_w_sub(ev, st, ctx):
    return T.sub(_argT(ev, st, ctx.args[0]), _argT(ev, st, ctx.args[1]))


@prim(_wr(("Mul", "mul")))
def p_w_mul(ev, st, ctx):
    return T.mul(_argT(ev, st, ctx.args[0]), _argT(ev, st, ctx.args[1]))


@prim(_wr(("BitXor", "bitxor")))
def p_w_xor(ev, st, ctx):
    return T.xor(_argT(ev, st, ctx.args[0]), _argT(ev, st, ctx.args[1]))


@prim(_wr(("BitAnd", "bitand")))
def p_w_and(ev, st, ctx):
    return T.band(_argT(ev, st, ctx.args[0]), _argT(ev, st, ctx.args[1]))


@prim(_wr(("BitOr", "bitor")))
def p_w_or(ev, st, ctx):
    return T.bor(_argT(ev, st, ctx.args[0]), _argT(ev, st, ctx.args[1]))


@prim(_wr(("Not", "not")))
def p_w_not(ev, st, ctx):
    return T.bnot(_argT(ev, st, ctx.args[0]))


@prim(_wr(("Neg", "neg")))
def p_w_neg(ev, st, ctx):
    return T.neg(_argT(ev, st, ctx.args[0]))


def _assign_op(fn):
    def h(ev, st, ctx):
        r = ctx.args[0]
        a = ev.load(st, r)
        b = _argT(ev, st, ctx.args[1])
        ev.store(st, r, fn(a, b))
        return UNIT
    return h


for _tr, _m, _fn in (("AddAssign", "add_assign", T.add), ("SubAssign", "sub_assign", T.sub),
                     ("MulAssign", "mul_assign", T.mul), ("BitXorAssign", "bitxor_assign", T.xor),
                     ("BitAndAssign", "bitand_assign", T.band), ("BitOrAssign", "bitor_assign", T.bor)):
    prim(_wr((_tr, _m)))(_assign_op(_fn))


def _w_shift(left):
    def h(ev, st, ctx):
        a = _argT(ev, st, ctx.args[0])
        k = _argT(ev, st, ctx.args[1])
        # Wrapping shifts mask the amount to the bit width
        if k.op == "const":
            n = k.aux & (a.w - 1)
            return T.shl(a, n) if left else T.lshr(a, n)
        amt = T.and_const(k, a.w - 1)
        amt = T.trunc(amt, a.w) if amt.w > a.w else T.zext(amt, a.w)
        return T.shl_var(a, amt) if left else T.lshr_var(a, amt)
    return h


prim("re:<core::num::Wrapping<u(8|16|32|64|128|size)> as core::ops::Shl<usize>>::shl")(_w_shift(True))
prim("re:<core::num::Wrapping<u(8|16|32|64|128|size)> as core::ops::Shr<usize>>::shr")(_w_shift(False))


@prim("<core::num::Wrapping<T> as core::clone::Clone>::clone")
def p_w_clone(ev, st, ctx):
    return deref(ev, st, ctx.args[0])


@prim("<core::num::Wrapping<T> as core::cmp::PartialEq>::eq")
def p_w_eq(ev, st, ctx):
    return T.eq(_argT(ev, st, ctx.args[0]), _argT(ev, st, ctx.args[1]))


@prim("<core::num::Wrapping<T> as core::cmp::PartialEq>::ne")
def p_w_ne(ev, st, ctx):
    return T.ne(_argT(ev, st, ctx.args[0]), _argT(ev, st, ctx.args[1]))


# ================================================================ arrays and slices

@prim("core::array::<impl core::clone::Clone for [T; N]>::clone")
def p_arr_clone(ev, st, ctx):
    return deref(ev, st, ctx.args[0])


@prim("core::array::<impl core::convert::AsMut<[T]> for [T; N]>::as_mut",
      "core::array::<impl core::convert::AsRef<[T]> for [T; N]>::as_ref",
      "core::slice::<impl [T]>::as_mut", "core::slice::<impl [T]>::as_ref",
      "core::convert::<impl core::convert::AsRef<[T]> for [T]>::as_ref",
      "core::convert::<impl core::convert::AsMut<[T]> for [T]>::as_mut")
def p_as_slice(ev, st, ctx):
    return as_slice(ev, st, ctx.args[0])


@prim("core::array::<impl [T; N]>::map")
def p_arr_map(ev, st, ctx):
    a, f = ctx.args
    if not isinstance(a, ArrV) or a.n > 4096:
        raise Unsupported("array map of %r" % (a,))
    t = ev.tys[ctx.dest_ty]
    ew = ev.scalar_width(ev.strip_newtypes(t["elem"]))
    return ArrV(a.n, ew, None, None, {i: call_closure(ev, st, f, [a.get(i)], ctx.fr.depth) for i in range(a.n)})


@prim("core::array::from_fn")
def p_arr_from_fn(ev, st, ctx):
    t = ev.tys[ctx.dest_ty]
    n = t["len"]
    if n is None or n > 4096:
        raise Unsupported("array::from_fn of length %r" % (n,))
    ew = ev.scalar_width(ev.strip_newtypes(t["elem"]))
    f = ctx.args[0]
    return ArrV(n, ew, None, None, {i: call_closure(ev, st, f, [T.const(i, 64)], ctx.fr.depth) for i in range(n)})


@prim("re:core::array::<impl core::default::Default for \\[T; .*\\]>::default")
def p_arr_default(ev, st, ctx):
    t = ev.tys[ctx.dest_ty]
    n = t["len"]
    ew = ev.scalar_width(ev.strip_newtypes(t["elem"]))
    if ew is None:
        raise Unsupported("default of array of %s" % ev.tys[t["elem"]]["s"])
    return ArrV(n, ew, T.const(0, ew), None, {})


def eq_values(ev, st, a, b):
    a = deref(ev, st, a)
    b = deref(ev, st, b)
    if isinstance(a, Ref) or isinstance(b, Ref):
        return eq_values(ev, st, a, b)
    if isinstance(a, T.T) and isinstance(b, T.T):
        return T.eq(a, b)
    if isinstance(a, ArrV) and isinstance(b, ArrV):
        if a.n != b.n:
            return T.FALSE
        if a.n > 64 and a.w is not None and (a.base is not None or b.base is not None):
            ta, tb = a.to_term(), b.to_term()
            if ta is tb:
                return T.TRUE
            x, y = (ta, tb) if ta.id < tb.id else (tb, ta)
            return T.atom("arr_eq", 1, (x, y), a.n)
        return T.and1([eq_values(ev, st, a.get(i), b.get(i)) for i in range(a.n)])
    if isinstance(a, Struct) and isinstance(b, Struct):
        return T.and1([eq_values(ev, st, x, y) for x, y in zip(a.fields, b.fields)])
    if isinstance(a, OpaqueV) and isinstance(b, OpaqueV):
        x, y = T.sym("opaque:%s" % a.token, 1), T.sym("opaque:%s" % b.token, 1)
        if x is y:
            return T.TRUE
        x, y = (x, y) if x.id < y.id else (y, x)
        return T.atom("opaque_eq", 1, (x, y))
    raise Unsupported("equality of %r and %r" % (a, b))


@prim("core::array::equality::<impl core::cmp::PartialEq<[U; N]> for [T; N]>::eq",
      "core::slice::cmp::<impl core::cmp::PartialEq<[U]> for [T]>::eq",
      "core::array::equality::<impl core::cmp::PartialEq<[U; N]> for [T]>::eq",
      "core::array::equality::<impl core::cmp::PartialEq<[U]> for [T; N]>::eq",
      "core::array::equality::<impl core::cmp::PartialEq<&[U]> for [T; N]>::eq",
      "core::array::equality::<impl core::cmp::PartialEq<[U; N]> for &[T]>::eq",
      "core::cmp::impls::<impl core::cmp::PartialEq<&B> for &A>::eq",
      "core::cmp::impls::<impl core::cmp::PartialEq<&mut B> for &mut A>::eq")
def p_arr_eq(ev, st, ctx):
    return eq_values(ev, st, ctx.args[0], ctx.args[1])


@prim("core::array::equality::<impl core::cmp::PartialEq<[U; N]> for [T; N]>::ne",
      "core::slice::cmp::<impl core::cmp::PartialEq<[U]> for [T]>::ne",
      "core::array::equality::<impl core::cmp::PartialEq<[U; N]> for [T]>::ne",
      "core::array::equality::<impl core::cmp::PartialEq<[U]> for [T; N]>::ne",
      "core::cmp::impls::<impl core::cmp::PartialEq<&B> for &A>::ne")
def p_arr_ne(ev, st, ctx):
    return T.bnot(eq_values(ev, st, ctx.args[0], ctx.args[1]))


@prim("core::cmp::PartialEq::ne")
def p_default_ne(ev, st, ctx):
    """the provided method `ne`: !self.eq(other), with the type's own eq"""
    c = ctx.callee
    path = c.get("rpath") or c.get("path") or ""
    if not path.endswith("::ne"):
        raise Unsupported("PartialEq::ne of %s" % path)
    want = path[:-4] + "::eq"
    key = next((k for k, b in ev.bodies.items() if k == want or b["def"] == want), None)
    if key is None:
        # a derived / core impl: structural equality of the two values
        return T.bnot(eq_values(ev, st, ctx.args[0], ctx.args[1]))
    r = ev.call_body(st, key, list(ctx.args), ctx.fr.depth + 1 if ctx.fr is not None else 0)
    return T.bnot(r)


@prim("core::slice::<impl [T]>::len")
def p_len(ev, st, ctx):
    r = as_slice(ev, st, ctx.args[0])
    n = r.win[1]
    if n is None:
        raise Unsupported("length of unknown slice")
    return tconst(n)


@prim("core::slice::<impl [T]>::is_empty")
def p_is_empty(ev, st, ctx):
    r = as_slice(ev, st, ctx.args[0])
    return T.eq(tconst(r.win[1]), T.const(0, 64))


def _index_common(ev, st, ctx):
    base = as_slice(ev, st, ctx.args[0])
    idx = ctx.args[1]
    ity = ev.tys[ctx.argtys[1]]["s"] if ctx.argtys[1] is not None else ""
    start0, n0 = base.win
    start0 = tconst(start0)
    n0 = tconst(n0)
    if ity in ("usize",):
        precondition(ev, st, ctx, "index<len", ev.lt(st, idx, n0, False))
        path, _ = ev._index(base.path, (start0, n0), idx)
        return Ref(base.obj, path, None, base.mut)
    if ity.startswith("core::ops::RangeFull"):
        return base
    if ity.startswith("core::ops::RangeTo<"):
        end = idx
        precondition(ev, st, ctx, "range.end<=len", T.bnot(ev.lt(st, n0, end, False)))
        return Ref(base.obj, base.path, (start0, end), base.mut)
    if ity.startswith("core::ops::RangeFrom<"):
        s = idx
        precondition(ev, st, ctx, "range.start<=len", T.bnot(ev.lt(st, n0, s, False)))
        return Ref(base.obj, base.path, (T.add(start0, s), T.sub(n0, s)), base.mut)
    if ity.startswith("core::ops::Range<"):
        s, e = idx.fields
        precondition(ev, st, ctx, "range.start<=end", T.bnot(ev.lt(st, e, s, False)))
        precondition(ev, st, ctx, "range.end<=len", T.bnot(ev.lt(st, n0, e, False)))
        return Ref(base.obj, base.path, (T.add(start0, s), T.sub(e, s)), base.mut)
    if ity.startswith("core::ops::RangeInclusive<"):
        if isinstance(idx, PrimV) and idx.kind == "rangeincl":
            s, e = idx.data
        else:
            raise Unsupported("RangeInclusive value %r" % (idx,))
        precondition(ev, st, ctx, "range.end<len", ev.lt(st, e, n0, False))
        precondition(ev, st, ctx, "range.start<=end+1", T.bnot(ev.lt(st, T.add(e, T.const(1, 64)), s, False)))
        return Ref(base.obj, base.path, (T.add(start0, s), T.add(T.sub(e, s), T.const(1, 64))), base.mut)
    raise Unsupported("index by %s" % ity)


def _normalize_ref(r):
    """collapse constant windows to ints"""
    if r.win is None:
        return r
    s, n = r.win
    if isinstance(s, T.T) and s.op == "const":
        s = s.aux
    if isinstance(n, T.T) and n.op == "const":
        n = n.aux
    return Ref(r.obj, r.path, (s, n), r.mut)


@prim("core::array::<impl core::ops::Index<I> for [T; N]>::index",
      "core::array::<impl core::ops::IndexMut<I> for [T; N]>::index_mut",
      "core::slice::index::<impl core::ops::Index<I> for [T]>::index",
      "core::slice::index::<impl core::ops::IndexMut<I> for [T]>::index_mut")
def p_index(ev, st, ctx):
    return _normalize_ref(_index_common(ev, st, ctx))


@prim("core::ops::RangeInclusive::<Idx>::new")
def p_rangeincl_new(ev, st, ctx):
    return PrimV("rangeincl", (ctx.args[0], ctx.args[1]))


@prim("core::slice::<impl [T]>::split_at_mut", "core::slice::<impl [T]>::split_at")
def p_split_at(ev, st, ctx):
    base = as_slice(ev, st, ctx.args[0])
    mid = ctx.args[1]
    s0, n0 = tconst(base.win[0]), tconst(base.win[1])
    precondition(ev, st, ctx, "mid<=len", T.bnot(ev.lt(st, n0, mid, False)))
    a = _normalize_ref(Ref(base.obj, base.path, (s0, mid), base.mut))
    b = _normalize_ref(Ref(base.obj, base.path, (T.add(s0, mid), T.sub(n0, mid)), base.mut))
    return Struct((a, b))


@prim("core::slice::<impl [T]>::copy_from_slice", "core::slice::<impl [T]>::clone_from_slice")
def p_copy_from_slice(ev, st, ctx):
    dst = as_slice(ev, st, ctx.args[0])
    src = as_slice(ev, st, ctx.args[1])
    nd, ns = tconst(dst.win[1]), tconst(src.win[1])
    precondition(ev, st, ctx, "copy_from_slice:len==len", T.eq(nd, ns))
    sd, n = win_const(dst)
    ss, n2 = win_const(src)
    if n != n2:
        return NORETURN
    vals = []
    srcarr = ev.load(st, Ref(src.obj, src.path))
    for i in range(n):
        vals.append(srcarr.get(ss + i))
    dstarr = ev.load(st, Ref(dst.obj, dst.path))
    for i in range(n):
        dstarr = dstarr.set(sd + i, vals[i])
    ev.store(st, Ref(dst.obj, dst.path), dstarr)
    return UNIT


@prim("core::slice::<impl [T]>::iter", "core::slice::<impl [T]>::iter_mut",
      "core::array::<impl core::iter::IntoIterator for &'a [T; N]>::into_iter",
      "core::array::<impl core::iter::IntoIterator for &'a mut [T; N]>::into_iter",
      "core::slice::iter::<impl core::iter::IntoIterator for &'a [T]>::into_iter",
      "core::slice::iter::<impl core::iter::IntoIterator for &'a mut [T]>::into_iter")
def p_slice_iter(ev, st, ctx):
    r = as_slice(ev, st, ctx.args[0])
    return PrimV("sliceiter", (r, 0, r.mut))


@prim("<I as core::iter::IntoIterator>::into_iter", "core::iter::Iterator::by_ref")
def p_identity(ev, st, ctx):
    return ctx.args[0]


@prim("core::array::iter::<impl core::iter::IntoIterator for [T; N]>::into_iter")
def p_array_into_iter(ev, st, ctx):
    a = ctx.args[0]
    if not isinstance(a, ArrV):
        raise Unsupported("into_iter of %r" % (a,))
    return PrimV("arrayiter", (a, 0))


@prim("core::slice::<impl [T]>::contains")
def p_slice_contains(ev, st, ctx):
    r = as_slice(ev, st, ctx.args[0])
    x = deref(ev, st, ctx.args[1])
    s0, n = win_const(r)
    arr = ev.load(st, Ref(r.obj, r.path))
    return T.or1([eq_values(ev, st, arr.get(s0 + i), x) for i in range(n)])


@prim("re:core::cmp::impls::<impl core::cmp::Ord for [iu](8|16|32|64|128|size)>::(min|max)", "re:<[iu](8|16|32|64|128|size) as core::cmp::Ord>::(min|max)",
      "core::cmp::Ord::min", "core::cmp::Ord::max", "core::cmp::min", "core::cmp::max")
def p_min_max(ev, st, ctx):
    a, b = ctx.args
    if not (isinstance(a, T.T) and isinstance(b, T.T)):
        raise Unsupported("min/max of non-scalars")
    name = (ctx.callee.get("rdef") or ctx.callee.get("def") or "")
    signed = False
    for t in ctx.callee.get("rtargs", []) + ctx.callee.get("targs", []) + [ctx.dest_ty]:
        tt = ev.tys[t] if t is not None else None
        if tt and tt["k"] == "int":
            signed = tt["signed"]
            break
    lt = T.slt(a, b) if signed else T.ult(a, b)
    if name.endswith("min"):
        return T.ite(lt, a, b)
    return T.ite(lt, b, a)


def iter_next_value(ev, st, itv, elem_signed=False, depth=0):
    """-> (option value, new iterator value)"""
    if isinstance(itv, Ref):  # by_ref
        inner = ev.load(st, itv)
        opt, new = iter_next_value(ev, st, inner, elem_signed, depth)
        ev.store(st, itv, new)
        return opt, itv
    if isinstance(itv, PrimV) and itv.kind == "sliceiter":
        r, pos, mut = itv.data
        s, n = win_const(r)
        if isinstance(pos, T.T):
            if pos.op != "const":
                raise Unsupported("slice iterator at symbolic position")
            pos = pos.aux
        if pos < n:
            return some(Ref(r.obj, r.path + (("i", s + pos),), None, mut)), PrimV("sliceiter", (r, pos + 1, mut))
        return NONE, itv
    if isinstance(itv, Struct) and len(itv.fields) == 2 and all(isinstance(f, T.T) for f in itv.fields):
        a, b = itv.fields  # core::ops::Range
        lt = ev.lt(st, a, b, elem_signed)
        if lt is T.TRUE:
            return some(a), Struct((T.add(a, T.const(1, a.w)), b))
        if lt is T.FALSE:
            return NONE, itv
        nxt = T.ite(lt, T.add(a, T.const(1, a.w)), a)
        return EnumV(T.zext(lt, 64), {0: (), 1: (a,)}), Struct((nxt, b))
    if isinstance(itv, PrimV) and itv.kind == "arrayiter":
        arr, pos = itv.data
        if pos < arr.n:
            return some(arr.get(pos)), PrimV("arrayiter", (arr, pos + 1))
        return NONE, itv
    if isinstance(itv, PrimV) and itv.kind == "map":
        inner, clo, signed = itv.data
        opt, new = iter_next_value(ev, st, inner, signed, depth)
        if isinstance(opt.discr, int):
            if opt.discr == 0:
                return NONE, PrimV("map", (new, clo, signed))
            v = call_closure(ev, st, clo, [opt.payloads[1][0]], depth)
            return some(v), PrimV("map", (new, clo, signed))
        # symbolic: apply the closure to the would-be element
        v = call_closure(ev, st, clo, [opt.payloads[1][0]], depth)
        return EnumV(opt.discr, {0: (), 1: (v,)}), PrimV("map", (new, clo, signed))
    if isinstance(itv, PrimV) and itv.kind == "zip":
        a, b = itv.data
        oa, na = iter_next_value(ev, st, a, elem_signed, depth)
        if not isinstance(oa.discr, int):
            raise Unsupported("zip over symbolic iterator")
        if oa.discr == 0:
            return NONE, PrimV("zip", (na, b))
        ob, nb = iter_next_value(ev, st, b, elem_signed, depth)
        if not isinstance(ob.discr, int):
            raise Unsupported("zip over symbolic iterator")
        if ob.discr == 0:
            return NONE, PrimV("zip", (na, nb))
        return some(Struct((oa.payloads[1][0], ob.payloads[1][0]))), PrimV("zip", (na, nb))
    if isinstance(itv, PrimV) and itv.kind == "chunks":
        r, size, pos, exact = itv.data
        s0, n = win_const(r)
        rem = n - pos
        if rem >= size:
            return some(Ref(r.obj, r.path, (s0 + pos, size), r.mut)), PrimV("chunks", (r, size, pos + size, exact))
        if rem > 0 and not exact:
            return some(Ref(r.obj, r.path, (s0 + pos, rem), r.mut)), PrimV("chunks", (r, size, n, exact))
        return NONE, itv
    if isinstance(itv, PrimV) and itv.kind == "enumerate":
        inner, idx = itv.data
        opt, new = iter_next_value(ev, st, inner, elem_signed, depth)
        if not isinstance(opt.discr, int):
            raise Unsupported("enumerate over symbolic iterator")
        if opt.discr == 0:
            return NONE, PrimV("enumerate", (new, idx))
        return some(Struct((T.const(idx, 64), opt.payloads[1][0]))), PrimV("enumerate", (new, idx + 1))
    if isinstance(itv, PrimV) and itv.kind == "take":
        inner, left = itv.data
        if left <= 0:
            return NONE, itv
        opt, new = iter_next_value(ev, st, inner, elem_signed, depth)
        return opt, PrimV("take", (new, left - 1))
    if isinstance(itv, PrimV) and itv.kind == "skip":
        inner, left = itv.data
        while left > 0:
            opt, inner = iter_next_value(ev, st, inner, elem_signed, depth)
            left -= 1
            if isinstance(opt.discr, int) and opt.discr == 0:
                return NONE, PrimV("skip", (inner, 0))
        return iter_next_value(ev, st, inner, elem_signed, depth)[0], PrimV("skip", (iter_next_value(ev, st, inner, elem_signed, depth)[1], 0))
    if isinstance(itv, PrimV) and itv.kind == "copied":
        opt, new = iter_next_value(ev, st, itv.data[0], elem_signed, depth)
        if isinstance(opt.discr, int) and opt.discr == 1:
            return some(deref(ev, st, opt.payloads[1][0])), PrimV("copied", (new,))
        if isinstance(opt.discr, int):
            return NONE, PrimV("copied", (new,))
        raise Unsupported("copied over symbolic iterator")
    if isinstance(itv, PrimV) and itv.kind == "rev":
        inner = itv.data[0]
        if isinstance(inner, PrimV) and inner.kind == "sliceiter":
            r, pos, mut = inner.data
            s0, n = win_const(r)
            back = itv.data[1]
            if pos + back < n:
                i = n - 1 - back
                return some(Ref(r.obj, r.path + (("i", s0 + i),), None, mut)), PrimV("rev", (inner, back + 1))
            return NONE, itv
        if isinstance(inner, Struct) and len(inner.fields) == 2 and all(isinstance(f, T.T) and f.op == "const" for f in inner.fields):
            a, b = inner.fields
            if (T.slt(a, b) if elem_signed else T.ult(a, b)) is T.TRUE:
                nb = T.sub(b, T.const(1, b.w))
                return some(nb), PrimV("rev", (Struct((a, nb)), 0))
            return NONE, itv
        raise Unsupported("rev of %r" % (inner,))
    if isinstance(itv, PrimV) and itv.kind == "step_by":
        inner, step, first = itv.data
        if isinstance(inner, Struct) and len(inner.fields) == 2:
            a, b = inner.fields
            lt = ev.lt(st, a, b, elem_signed)
            if lt is T.TRUE:
                return some(a), PrimV("step_by", (Struct((T.add(a, T.const(step, a.w)), b)), step, False))
            if lt is T.FALSE:
                return NONE, itv
        raise Unsupported("step_by over %r" % (inner,))
    if isinstance(itv, PrimV) and itv.kind == "flatmap":
        outer, clo, cur = itv.data
        for _ in range(100000):
            if cur is not None:
                opt, cur = iter_next_value(ev, st, cur, elem_signed, depth)
                if not isinstance(opt.discr, int):
                    raise Unsupported("flat_map over a symbolic iterator")
                if opt.discr == 1:
                    return opt, PrimV("flatmap", (outer, clo, cur))
                cur = None
            opt, outer = iter_next_value(ev, st, outer, elem_signed, depth)
            if not isinstance(opt.discr, int):
                raise Unsupported("flat_map over a symbolic iterator")
            if opt.discr == 0:
                return NONE, PrimV("flatmap", (outer, clo, None))
            x = opt.payloads[1][0]
            cur = as_iterator(ev, st, call_closure(ev, st, clo, [x], depth) if clo is not None else x)
        raise Unsupported("flat_map does not terminate")
    if isinstance(itv, PrimV) and itv.kind == "scan":
        inner, state_oid, clo = itv.data
        opt, new = iter_next_value(ev, st, inner, elem_signed, depth)
        if not isinstance(opt.discr, int):
            raise Unsupported("scan over a symbolic iterator")
        if opt.discr == 0:
            return NONE, PrimV("scan", (new, state_oid, clo))
        r = call_closure(ev, st, clo, [Ref(state_oid, (), None, True), opt.payloads[1][0]], depth)
        return r, PrimV("scan", (new, state_oid, clo))
    raise Unsupported("next() of %r" % (itv,))


def as_iterator(ev, st, v):
    """IntoIterator::into_iter of a value the iterator primitives model"""
    if isinstance(v, ArrV):
        return PrimV("arrayiter", (v, 0))
    if isinstance(v, Ref):
        t = ev.load(st, v) if v.win is None else None
        if v.win is not None or isinstance(t, ArrV):
            r = as_slice(ev, st, v)
            return PrimV("sliceiter", (r, 0, r.mut))
    if isinstance(v, EnumV) and set(v.payloads) <= {0, 1} and isinstance(v.discr, int):
        return PrimV("arrayiter", (ArrV(v.discr, None, None, None, {0: v.payloads[1][0]} if v.discr else {}), 0))  # Option as an iterator
    return v


def _range_signed(ev, ctx):
    for t in ctx.callee.get("rtargs", []) + ctx.callee.get("targs", []):
        tt = ev.tys[t]
        if tt["k"] == "int":
            return tt["signed"]
        if tt["k"] == "adt" and tt["def"] == "core::ops::Range":
            for x in tt["targs"]:
                if ev.tys[x]["k"] == "int":
                    return ev.tys[x]["signed"]
    return False


@prim("core::iter::range::<impl core::iter::Iterator for core::ops::Range<A>>::next",
      "<core::slice::Iter<'a, T> as core::iter::Iterator>::next",
      "<core::slice::IterMut<'a, T> as core::iter::Iterator>::next",
      "<core::iter::Map<I, F> as core::iter::Iterator>::next",
      "<core::array::IntoIter<T, N> as core::iter::Iterator>::next",
      "<core::iter::Zip<A, B> as core::iter::Iterator>::next",
      "<&mut I as core::iter::Iterator>::next",
      "<core::slice::ChunksExact<'a, T> as core::iter::Iterator>::next",
      "<core::slice::ChunksExactMut<'a, T> as core::iter::Iterator>::next",
      "<core::slice::Chunks<'a, T> as core::iter::Iterator>::next",
      "<core::slice::ChunksMut<'a, T> as core::iter::Iterator>::next",
      "<core::iter::Enumerate<I> as core::iter::Iterator>::next",
      "<core::iter::Take<I> as core::iter::Iterator>::next",
      "<core::iter::Skip<I> as core::iter::Iterator>::next",
      "<core::iter::Copied<I> as core::iter::Iterator>::next",
      "<core::iter::Cloned<I> as core::iter::Iterator>::next",
      "<core::iter::Rev<I> as core::iter::Iterator>::next",
      "<core::iter::StepBy<I> as core::iter::Iterator>::next")
def p_next(ev, st, ctx):
    r = ctx.args[0]
    itv = ev.load(st, r)
    opt, new = iter_next_value(ev, st, itv, _range_signed(ev, ctx), ctx.fr.depth)
    ev.store(st, r, new)
    return opt


@prim("core::iter::Iterator::map")
def p_map(ev, st, ctx):
    signed = False
    if ctx.argtys[0] is not None:
        t = ev.tys[ctx.argtys[0]]
        if t["k"] == "adt" and t["def"] == "core::ops::Range":
            signed = any(ev.tys[x]["k"] == "int" and ev.tys[x]["signed"] for x in t["targs"])
    return PrimV("map", (ctx.args[0], ctx.args[1], signed))


@prim("core::iter::Iterator::flat_map")
def p_flat_map(ev, st, ctx):
    return PrimV("flatmap", (ctx.args[0], ctx.args[1], None))


@prim("core::iter::Iterator::flatten")
def p_flatten(ev, st, ctx):
    return PrimV("flatmap", (ctx.args[0], None, None))


@prim("core::iter::Iterator::scan")
def p_scan(ev, st, ctx):
    # the closure gets `&mut state`: the state lives in an object of its own
    return PrimV("scan", (ctx.args[0], st.alloc(ctx.args[1], "scan.state"), ctx.args[2]))


@prim("core::iter::Iterator::zip")
def p_zip(ev, st, ctx):
    b = ctx.args[1]
    if isinstance(b, Ref) and b.win is not None:
        b = PrimV("sliceiter", (b, 0, b.mut))
    elif isinstance(b, Ref):
        tgt = ev.load(st, b)
        if isinstance(tgt, ArrV):  # &[T; N] / &mut [T; N]
            b = PrimV("sliceiter", (Ref(b.obj, b.path, (0, tgt.n), b.mut), 0, b.mut))
    elif isinstance(b, ArrV):  # an array by value
        b = PrimV("arrayiter", (b, 0))
    return PrimV("zip", (ctx.args[0], b))


def _chunks(exact):
    def h(ev, st, ctx):
        r = as_slice(ev, st, ctx.args[0])
        size = ctx.args[1]
        if size.op != "const":
            raise Unsupported("chunks with symbolic size")
        precondition(ev, st, ctx, "chunk_size != 0", T.TRUE if size.aux else T.FALSE)
        return PrimV("chunks", (_normalize_ref(r), size.aux, 0, exact))
    return h


prim("core::slice::<impl [T]>::chunks_exact", "core::slice::<impl [T]>::chunks_exact_mut")(_chunks(True))
prim("core::slice::<impl [T]>::chunks", "core::slice::<impl [T]>::chunks_mut")(_chunks(False))


@prim("core::slice::ChunksExactMut::<'a, T>::into_remainder", "core::slice::ChunksExact::<'a, T>::remainder")
def p_chunks_remainder(ev, st, ctx):
    it = deref(ev, st, ctx.args[0]) if isinstance(ctx.args[0], Ref) else ctx.args[0]
    r, size, pos, exact = it.data
    s0, n = win_const(r)
    full = (n // size) * size
    return Ref(r.obj, r.path, (s0 + full, n - full), r.mut)


@prim("core::iter::Iterator::enumerate")
def p_enumerate(ev, st, ctx):
    return PrimV("enumerate", (ctx.args[0], 0))


@prim("core::iter::Iterator::take")
def p_take(ev, st, ctx):
    n = ctx.args[1]
    if n.op != "const":
        raise Unsupported("take with symbolic count")
    return PrimV("take", (ctx.args[0], n.aux))


@prim("core::iter::Iterator::skip")
def p_skip(ev, st, ctx):
    n = ctx.args[1]
    if n.op != "const":
        raise Unsupported("skip with symbolic count")
    return PrimV("skip", (ctx.args[0], n.aux))


@prim("core::iter::Iterator::copied", "core::iter::Iterator::cloned")
def p_copied(ev, st, ctx):
    return PrimV("copied", (ctx.args[0],))


@prim("core::iter::Iterator::rev")
def p_rev(ev, st, ctx):
    return PrimV("rev", (ctx.args[0], 0))


@prim("core::iter::Iterator::step_by")
def p_step_by(ev, st, ctx):
    n = ctx.args[1]
    if n.op != "const" or n.aux == 0:
        raise Unsupported("step_by with symbolic or zero step")
    return PrimV("step_by", (ctx.args[0], n.aux, True))


def _drain(ev, st, itv, depth, fn):
    for _ in range(200000):
        opt, itv = iter_next_value(ev, st, itv, False, depth)
        if not isinstance(opt.discr, int):
            raise Unsupported("iteration over symbolic iterator")
        if opt.discr == 0:
            return itv
        if fn(opt.payloads[1][0]) is False:
            return itv
    raise Unsupported("iterator does not end")


@prim("core::iter::Iterator::any", "<core::slice::Iter<'a, T> as core::iter::Iterator>::any")
def p_any(ev, st, ctx):
    r = ctx.args[0]
    clo = ctx.args[1]
    itv = ev.load(st, r) if isinstance(r, Ref) else r
    conds = []
    itv = _drain(ev, st, itv, ctx.fr.depth, lambda x: conds.append(call_closure(ev, st, clo, [x], ctx.fr.depth)))
    if isinstance(r, Ref):
        ev.store(st, r, itv)
    return T.or1(conds)


@prim("core::iter::Iterator::fold", "<core::slice::Iter<'a, T> as core::iter::Iterator>::fold")
def p_fold(ev, st, ctx):
    itv, acc, clo = ctx.args
    box = [acc]
    _drain(ev, st, itv, ctx.fr.depth, lambda x: box.__setitem__(0, call_closure(ev, st, clo, [box[0], x], ctx.fr.depth)))
    return box[0]


@prim("core::iter::Iterator::try_for_each", "<core::slice::Iter<'a, T> as core::iter::Iterator>::try_for_each")
def p_try_for_each(ev, st, ctx):
    """f(x)? for every element: the first Err leaves at once with that value and the state of that moment"""
    from .evalmir import add_assume
    r = ctx.args[0]
    clo = ctx.args[1]
    itv = ev.load(st, r) if isinstance(r, Ref) else r
    items = []
    itv = _drain(ev, st, itv, ctx.fr.depth, lambda x: items.append(x))
    if isinstance(r, Ref):
        ev.store(st, r, itv)
    base_assume = st.assume
    exits = []  # (condition, returned value, state at that moment)
    okall = T.TRUE
    final = ok(UNIT)
    for x in items:
        rv = call_closure(ev, st, clo, [x], ctx.fr.depth)
        if not isinstance(rv, EnumV):
            raise Unsupported("try_for_each: closure returned %r" % (rv,))
        d = tconst(rv.discr)
        is_ok = T.eq(d, T.const(0, d.w))
        if is_ok is T.TRUE:
            continue
        if is_ok is T.FALSE:
            final = rv
            break
        exits.append((T.and1([okall, T.bnot(is_ok)]), EnumV(1, {1: rv.payloads[1]}), st.fork()))
        okall = T.and1([okall, is_ok])
        add_assume(st, is_ok)
    cur_state, cur_val = st, final
    for c, v, s_ in reversed(exits):
        cur_state = ev.merge_states(c, s_, cur_state)
        cur_val = ev.merge_values(c, v, cur_val)
    st.objs = cur_state.objs
    st.world = cur_state.world
    st.assume = base_assume
    return cur_val


@prim("core::option::Option::<T>::ok_or_else")
def p_ok_or_else(ev, st, ctx):
    v, clo = ctx.args
    if not isinstance(v, EnumV):
        raise Unsupported("ok_or_else of %r" % (v,))
    if isinstance(v.discr, int):
        return ok(v.payloads[1][0]) if v.discr == 1 else err(call_closure(ev, st, clo, [], ctx.fr.depth))
    d = tconst(v.discr)
    e = call_closure(ev, st, clo, [], ctx.fr.depth)
    return EnumV(T.zext(T.eq(d, T.const(0, d.w)), 64), {0: (v.payloads[1][0],), 1: (e,)})


@prim("core::option::Option::<T>::ok_or")
def p_ok_or(ev, st, ctx):
    v, e = ctx.args
    if not isinstance(v, EnumV):
        raise Unsupported("ok_or of %r" % (v,))
    if isinstance(v.discr, int):
        return ok(v.payloads[1][0]) if v.discr == 1 else err(e)
    d = tconst(v.discr)
    return EnumV(T.zext(T.eq(d, T.const(0, d.w)), 64), {0: (v.payloads[1][0],), 1: (e,)})


@prim("core::iter::Iterator::count", "core::iter::ExactSizeIterator::len")
def p_count(ev, st, ctx):
    itv = ctx.args[0]
    if isinstance(itv, Ref):
        itv = ev.load(st, itv)
    n = [0]
    _drain(ev, st, itv, ctx.fr.depth, lambda x: n.__setitem__(0, n[0] + 1))
    return T.const(n[0], 64)


@prim("<T as core::convert::TryInto<U>>::try_into", "core::array::<impl core::convert::TryFrom<&'a [T]> for &'a [T; N]>::try_from",
      "core::array::<impl core::convert::TryFrom<&[T]> for [T; N]>::try_from")
def p_try_into(ev, st, ctx):
    """slice -> array (by value or by reference), Ok iff the lengths agree"""
    a = ctx.args[0]
    dt = ev.tys[ctx.dest_ty]
    if not (isinstance(a, Ref) and a.win is not None and dt["k"] == "adt" and dt["def"].endswith("Result")):
        raise Unsupported("try_into of %r" % (a,))
    okty = ev.tys[dt["variants"][0]["fields"][0]["ty"]]
    want = okty
    byref = False
    if okty["k"] == "ref":
        want = ev.tys[okty["to"]]
        byref = True
    if want["k"] != "array":
        raise Unsupported("try_into to %s" % okty["s"])
    s0, n = win_const(a)
    if n != want["len"]:
        return err(OpaqueV(None, "TryFromSliceError"))
    if byref:
        arr = slice_value(ev, st, a)
        return ok(Ref(st.alloc(arr, "arrview"), ())) if s0 != 0 or True else ok(a)
    return ok(slice_value(ev, st, a))


@prim("<core::slice::Iter<'a, T> as core::iter::Iterator>::all", "core::iter::Iterator::all")
def p_all(ev, st, ctx):
    r = ctx.args[0]
    clo = ctx.args[1]
    itv = ev.load(st, r)
    conds = []
    for _ in range(100000):
        opt, itv = iter_next_value(ev, st, itv, False, ctx.fr.depth)
        if not isinstance(opt.discr, int):
            raise Unsupported("all() over symbolic iterator")
        if opt.discr == 0:
            break
        conds.append(call_closure(ev, st, clo, [opt.payloads[1][0]], ctx.fr.depth))
    ev.store(st, r, itv)
    return T.and1(conds)


@prim("core::iter::Iterator::for_each")
def p_for_each(ev, st, ctx):
    itv = ctx.args[0]
    clo = ctx.args[1]
    for _ in range(100000):
        opt, itv = iter_next_value(ev, st, itv, False, ctx.fr.depth)
        if not isinstance(opt.discr, int):
            raise Unsupported("for_each over symbolic iterator")
        if opt.discr == 0:
            break
        call_closure(ev, st, clo, [opt.payloads[1][0]], ctx.fr.depth)
    return UNIT


@prim("core::slice::<impl [T]>::as_mut_ptr", "core::slice::<impl [T]>::as_ptr")
def p_as_mut_ptr(ev, st, ctx):
    return as_slice(ev, st, ctx.args[0])


@prim("core::slice::from_raw_parts_mut", "core::slice::from_raw_parts")
def p_from_raw_parts(ev, st, ctx):
    p, n = ctx.args
    if isinstance(p, PrimV) and p.kind == "castptr":
        ref, sty, dty = p.data
        src_elem = ev.tys[ev.strip_newtypes(ev.tys[sty]["to"])]
        dst_elem = ev.tys[ev.strip_newtypes(ev.tys[dty]["to"])]
        if dst_elem["k"] == "int" and dst_elem["bits"] == 8:
            base = as_slice(ev, st, ref)
            s, cnt = win_const(base)
            arr = ev.load(st, Ref(base.obj, base.path))
            if arr.w is None or s != 0 or cnt != arr.n:
                raise Unsupported("byte view of a sub-slice")
            nbytes = cnt * (arr.w // 8)
            # unsafe precondition: the byte length must not exceed the allocation
            precondition(ev, st, ctx, "from_raw_parts:len<=alloc", T.bnot(ev.lt(st, T.const(nbytes, 64), n, False)))
            return PrimV("byteview", (Ref(base.obj, base.path), arr.w, n.aux if n.op == "const" else n))
        raise Unsupported("from_raw_parts on cast from %s to %s" % (src_elem.get("s"), dst_elem.get("s")))
    if isinstance(p, Ref):
        base = as_slice(ev, st, p)
        return _normalize_ref(Ref(base.obj, base.path, (tconst(base.win[0]), n), base.mut))
    raise Unsupported("from_raw_parts of %r" % (p,))


# rand_core::le: documented meaning (little-endian decode), summarised; the source is pinned by hash.
def _read_into(wbytes):
    def h(ev, st, ctx):
        src = as_slice(ev, st, ctx.args[0])
        dst = as_slice(ev, st, ctx.args[1])
        ns, nd = tconst(src.win[1]), tconst(dst.win[1])
        precondition(ev, st, ctx, "read_into:src.len>=%d*dst.len" % wbytes,
                     T.bnot(ev.lt(st, ns, T.mul(nd, T.const(wbytes, 64)), False)))
        ss, _ = win_const(src)
        sd, n = win_const(dst)
        sarr = ev.load(st, Ref(src.obj, src.path))
        darr = ev.load(st, Ref(dst.obj, dst.path))
        for i in range(n):
            bs = [sarr.get(ss + wbytes * i + j) for j in range(wbytes)]
            darr = darr.set(sd + i, T.concat_bytes_le(bs))
        ev.store(st, Ref(dst.obj, dst.path), darr)
        return UNIT
    return h


prim("rand_core::le::read_u32_into")(_read_into(4))
prim("rand_core::le::read_u64_into")(_read_into(8))


# ================================================================ Option / Result / ?

@prim("core::option::Option::<T>::is_none")
def p_is_none(ev, st, ctx):
    v = deref(ev, st, ctx.args[0])
    d = tconst(v.discr)
    return T.eq(d, T.const(0, d.w))


@prim("core::option::Option::<T>::is_some")
def p_is_some(ev, st, ctx):
    v = deref(ev, st, ctx.args[0])
    d = tconst(v.discr)
    return T.ne(d, T.const(0, d.w))


@prim("<core::result::Result<T, E> as core::ops::Try>::branch")
def p_try_branch(ev, st, ctx):
    v = ctx.args[0]
    if not isinstance(v, EnumV):
        raise Unsupported("Try::branch of %r" % (v,))
    pay = {}
    if 0 in v.payloads:
        pay[0] = v.payloads[0]
    if 1 in v.payloads:
        pay[1] = (EnumV(1, {1: v.payloads[1]}),)
    return EnumV(v.discr, pay)


@prim("<core::result::Result<T, F> as core::ops::FromResidual<core::result::Result<core::convert::Infallible, E>>>::from_residual")
def p_from_residual(ev, st, ctx):
    v = ctx.args[0]
    if isinstance(v, EnumV) and 1 in v.payloads:
        return EnumV(1, {1: v.payloads[1]})
    raise Unsupported("from_residual of %r" % (v,))


@prim("core::result::Result::<T, E>::map")
def p_result_map(ev, st, ctx):
    v, f = ctx.args
    if not isinstance(v, EnumV):
        raise Unsupported("Result::map of %r" % (v,))
    pay = dict(v.payloads)
    if 0 in pay:
        pay[0] = (call_closure(ev, st, f, list(pay[0]), ctx.fr.depth),)
    return EnumV(v.discr, pay)


@prim("core::option::Option::<T>::map")
def p_option_map(ev, st, ctx):
    v, f = ctx.args
    if not isinstance(v, EnumV):
        raise Unsupported("Option::map of %r" % (v,))
    pay = dict(v.payloads)
    if 1 in pay:
        if isinstance(v.discr, int):
            pay[1] = (call_closure(ev, st, f, list(pay[1]), ctx.fr.depth),)
        else:
            # the closure runs only when the value is Some: evaluate it under that assumption, keep its effects conditional
            from .evalmir import add_assume
            is_some = T.bnot(T.eqz(v.discr))
            s1 = st.fork()
            add_assume(s1, is_some)
            pay[1] = (call_closure(ev, s1, f, list(pay[1]), ctx.fr.depth),)
            s1.assume = st.assume
            merged = ev.merge_states(is_some, s1, st)
            st.objs, st.world = merged.objs, merged.world
    return EnumV(v.discr, pay)


@prim("core::result::Result::<T, E>::unwrap", "core::result::Result::<T, E>::expect",
      "core::option::Option::<T>::unwrap", "core::option::Option::<T>::expect")
def p_unwrap(ev, st, ctx):
    v = ctx.args[0]
    if not isinstance(v, EnumV):
        raise Unsupported("unwrap of %r" % (v,))
    okv = 0 if "Result" in ctx.callee["def"] else 1
    d = tconst(v.discr)
    precondition(ev, st, ctx, "unwrap", T.eq(d, T.const(okv, d.w)))
    if isinstance(v.discr, int) and v.discr != okv:
        return NORETURN
    return v.payloads[okv][0]


@prim("core::option::Option::<T>::take")
def p_option_take(ev, st, ctx):
    r = ctx.args[0]
    old = ev.load(st, r)
    if not isinstance(old, EnumV):
        raise Unsupported("Option::take of %r" % (old,))
    ev.store(st, r, NONE)
    return old


@prim("core::option::Option::<T>::replace")
def p_option_replace(ev, st, ctx):
    r, v = ctx.args
    old = ev.load(st, r)
    if not isinstance(old, EnumV):
        raise Unsupported("Option::replace of %r" % (old,))
    ev.store(st, r, some(v))
    return old


@prim("core::option::Option::<T>::unwrap_or")
def p_option_unwrap_or(ev, st, ctx):
    v, d = ctx.args
    if not isinstance(v, EnumV):
        raise Unsupported("Option::unwrap_or of %r" % (v,))
    if isinstance(v.discr, int):
        return v.payloads[1][0] if v.discr == 1 else d
    x = v.payloads[1][0]
    if isinstance(x, T.T) and isinstance(d, T.T):
        dd = tconst(v.discr)
        return T.ite(T.ne(dd, T.const(0, dd.w)), x, d)
    dd = tconst(v.discr)
    return ev.merge_values(T.ne(dd, T.const(0, dd.w)), x, d)


@prim("core::num::NonZero::<T>::new")
def p_nonzero_new(ev, st, ctx):
    x = ctx.args[0]
    if not isinstance(x, T.T):
        raise Unsupported("NonZero::new of %r" % (x,))
    nz = T.ne(x, T.const(0, x.w))
    if nz.op == "const":
        return some(x) if nz.aux else NONE
    return EnumV(T.zext(nz, 64), {0: (), 1: (x,)})


@prim("core::num::NonZero::<T>::get")
def p_nonzero_get(ev, st, ctx):
    return ctx.args[0]


@prim("core::mem::take")
def p_mem_take(ev, st, ctx):
    r = ctx.args[0]
    old = ev.load(st, r)
    if isinstance(old, T.T):
        ev.store(st, r, T.const(0, old.w))  # Default of bool and of every integer type
    elif isinstance(old, EnumV) and set(old.payloads) <= {0, 1} and 0 in old.payloads and old.payloads[0] == ():
        ev.store(st, r, NONE)  # Option<T>
    else:
        raise Unsupported("mem::take of %r" % (old,))
    return old


@prim("<T as core::convert::Into<U>>::into", "<T as core::convert::From<T>>::from")
def p_into(ev, st, ctx):
    """Into for integer types (the blanket impl over From): widening by zero- or sign-extension; identity for T -> T"""
    a = ctx.args[0]
    if not isinstance(a, T.T):
        dt = ev.tys[ctx.dest_ty]
        st_ = ev.tys[ctx.argtys[0]] if ctx.argtys and ctx.argtys[0] is not None else None
        if st_ is not None and st_.get("s") == dt.get("s"):
            return a
        raise Unsupported("Into::into of %r" % (a,))
    w = ev.scalar_width(ctx.dest_ty)
    if w is None:
        raise Unsupported("Into::into to a non-scalar")
    if w == a.w:
        return a
    if w < a.w:
        raise Unsupported("narrowing Into")
    src = ev.tys[ctx.argtys[0]] if ctx.argtys and ctx.argtys[0] is not None else None
    src = ev.tys[ev.strip_newtypes(ctx.argtys[0])] if src is not None else None
    signed = bool(src and src.get("k") == "int" and src.get("signed"))
    return T.sext(a, w) if signed else T.zext(a, w)


@prim("core::mem::replace")
def p_mem_replace(ev, st, ctx):
    r, v = ctx.args
    old = ev.load(st, r)
    ev.store(st, r, v)
    return old


@prim("core::mem::swap")
def p_mem_swap(ev, st, ctx):
    a, b = ctx.args
    va, vb = ev.load(st, a), ev.load(st, b)
    ev.store(st, a, vb)
    ev.store(st, b, va)
    return UNIT


# ================================================================ mem / ptr

@prim("core::mem::forget", "core::mem::drop")
def p_forget(ev, st, ctx):
    return UNIT


@prim("core::ptr::read_volatile", "core::ptr::read")
def p_read(ev, st, ctx):
    return deref(ev, st, ctx.args[0])


@prim("core::mem::size_of")
def p_size_of(ev, st, ctx):
    t = ctx.callee["targs"][0]
    w = ev.scalar_width(ev.strip_newtypes(t))
    if w is None:
        raise Unsupported("size_of %s" % ev.tys[t]["s"])
    return T.const(max(1, w // 8), 64)


# ================================================================ calls through Fn traits on function items / closures

@prim("core::ops::Fn::call", "core::ops::FnMut::call_mut", "core::ops::FnOnce::call_once")
def p_fn_call(ev, st, ctx):
    f = ctx.args[0]
    if isinstance(f, Ref):
        try:
            f = ev.load(st, f)
        except Unsupported:
            f = None
    tup = ctx.args[1] if len(ctx.args) > 1 else UNIT
    actual = list(tup.fields) if isinstance(tup, Struct) else [tup]
    if isinstance(f, FnV):
        c2 = CallCtx(f.callee, actual, [None] * len(actual), ctx.dest_ty, ctx.span, ctx.fr)
        return ev.invoke(st, c2)
    if isinstance(f, ClosureV):
        return call_closure(ev, st, f, actual, ctx.fr.depth if ctx.fr else 0)
    return opaque_call(ev, st, ctx, ctx.callee.get("why", "unresolved"))


# ================================================================ atomics (only JitterRng::new's cache of the round count)

@prim("re:core::sync::atomic::Atomic(Usize|U64|U32|Bool|::<.*>)::load")
def p_atomic_load(ev, st, ctx):
    ev.opaque_counter += 1
    w = ev.scalar_width(ctx.dest_ty) or 64
    ev.static_reads.append((ctx.fr.body["key"], ctx.span))
    return T.sym("static_read#%d" % ev.opaque_counter, w)


@prim("re:core::sync::atomic::Atomic(Usize|U64|U32|Bool|::<.*>)::store")
def p_atomic_store(ev, st, ctx):
    ev.static_reads.append((ctx.fr.body["key"], ctx.span))
    return UNIT


# ================================================================ panics

@prim("core::panicking::panic", "core::panicking::panic_fmt", "core::panicking::panic_explicit",
      "core::panicking::unreachable_display", "core::panicking::panic_display",
      "core::panicking::assert_failed", "core::option::unwrap_failed", "core::result::unwrap_failed",
      "core::panicking::panic_const::panic_const_rem_by_zero")
def p_panic(ev, st, ctx):
    msg = None
    a = ctx.args[0] if ctx.args else None
    if isinstance(a, Ref):
        try:
            arr = slice_value(ev, st, a)
            msg = bytes(x.aux for x in arr.all_elems()).decode("utf8", "replace")
        except Exception:
            msg = None
    ev.panics.append({"body": ctx.fr.body["key"], "span": ctx.span, "assume": st.assume, "msg": msg,
                      "chain": tuple(ev.chain)})
    return NORETURN


# ================================================================ formatting sinks (C17)

@prim("core::fmt::Formatter::<'a>::write_fmt", "core::fmt::Formatter::<'a>::write_str",
      "core::fmt::Arguments::<'a>::from_str", "core::fmt::Arguments::<'a>::new",
      "re:core::fmt::Arguments::<'a>::new_.*",
      "re:core::fmt::Formatter::<'a>::debug_(struct|tuple)_field\\d_finish",
      "re:core::fmt::Formatter::<'a>::debug_(struct|tuple)_fields_finish",
      "re:core::fmt::rt::Argument::<'_>::new_.*",
      "core::fmt::Formatter::<'a>::debug_struct", "core::fmt::Formatter::<'a>::debug_tuple",
      "re:core::fmt::(builders::)?Debug(Struct|Tuple|List|Set|Map)::<'a, 'b>::(field|finish|finish_non_exhaustive|entry|entries|key|value)",
      "core::fmt::Formatter::<'a>::debug_list", "core::fmt::Formatter::<'a>::debug_set", "core::fmt::Formatter::<'a>::debug_map",
      "core::fmt::Formatter::<'a>::pad", "core::fmt::Formatter::<'a>::pad_integral", "core::fmt::Formatter::<'a>::write_char",
      "core::fmt::write",
      "<[T] as core::fmt::Debug>::fmt", "re:<.* as core::fmt::(Debug|Display)>::fmt")
def p_fmt_sink(ev, st, ctx):
    """formatting sink: trait objects whose fmt body is available are followed; everything else that
    reaches the formatter is recorded as a leaf (callee, value) for the taint rule of C17"""
    name = ctx.callee.get("rdef") or ctx.callee.get("def")
    for a in ctx.args:
        follow_fmt_arg(ev, st, ctx, name, a)
    return opaque_call(ev, st, ctx, "fmt")


def sym_names(ev, st, v):
    sig = []
    value_sig(ev, st, v, sig)
    names = set()
    for t in sig:
        T.atoms_of(t, names)
    return frozenset(str(n) for n in names)


def follow_fmt_arg(ev, st, ctx, sink, a, depth=0):
    if isinstance(a, PrimV) and a.kind == "dyn":
        inner, vtable, trait, orig = a.data
        m = vtable.get("fmt")
        if m is not None and m.get("res") and m["res"] in ev.bodies and depth < 8:
            fmtr = Ref(st.alloc(OpaqueV(None, "formatter"), "fmt"), (), None, True)
            c2 = CallCtx(m, [inner, fmtr], [None, None], None, ctx.span, ctx.fr)
            ev.fmt_followed.append((sink, m["res"]))
            ev.call_body(st, m["res"], [inner, fmtr], (ctx.fr.depth + 1) if ctx.fr else 0)
            return
        ev.fmt_calls.append((ctx.fr.body["key"] if ctx.fr else "?", sink, (m or {}).get("rdef", "?"), sym_names(ev, st, inner), ctx.span))
        return
    if isinstance(a, Ref):
        # references to data handed to the formatter (e.g. a slice of Arguments)
        try:
            v = deref(ev, st, a)
        except Unsupported:
            v = None
        if isinstance(v, (ArrV, Struct)):
            for x in (v.all_elems() if isinstance(v, ArrV) and v.n <= 64 else (v.fields if isinstance(v, Struct) else [])):
                follow_fmt_arg(ev, st, ctx, sink, x, depth + 1)
            if isinstance(v, ArrV) and v.n > 64:
                ev.fmt_calls.append((ctx.fr.body["key"] if ctx.fr else "?", sink, "data", sym_names(ev, st, a), ctx.span))
            return
        if isinstance(v, T.T):
            ev.fmt_calls.append((ctx.fr.body["key"] if ctx.fr else "?", sink, "data", sym_names(ev, st, a), ctx.span))
        elif isinstance(v, PrimV):
            follow_fmt_arg(ev, st, ctx, sink, v, depth + 1)
        return
    if isinstance(a, T.T):
        if a.op != "const":
            ev.fmt_calls.append((ctx.fr.body["key"] if ctx.fr else "?", sink, "scalar", sym_names(ev, st, a), ctx.span))
        return
    if isinstance(a, Struct):
        for x in a.fields:
            follow_fmt_arg(ev, st, ctx, sink, x, depth + 1)
        return
    if isinstance(a, ArrV) and a.n <= 64:
        for x in a.all_elems():
            follow_fmt_arg(ev, st, ctx, sink, x, depth + 1)
        return
