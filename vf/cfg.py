"""CFG utilities over the MIR facts: successors (normal edges only), dominators,
post-dominators restricted to blocks that can reach a return, natural loops."""


def successors(term):
    k = term[0]
    if k == "goto":
        return [term[1]]
    if k == "switch":
        out = [bb for _, bb in term[2]]
        out.append(term[3])
        return out
    if k == "drop":
        return [term[2]]
    if k == "assert":
        return [term[4]]
    if k == "call":
        return [term[4]] if term[4] is not None else []
    return []


class CFG(object):
    def __init__(self, body):
        blocks = body["blocks"]
        n = len(blocks)
        self.n = n
        self.succ = [[] for _ in range(n)]
        self.pred = [[] for _ in range(n)]
        for i, b in enumerate(blocks):
            if b["cleanup"]:
                continue
            seen = set()
            for s in successors(b["t"]):
                if s in seen or blocks[s]["cleanup"]:
                    continue
                seen.add(s)
                self.succ[i].append(s)
                self.pred[s].append(i)
        self.rets = [i for i, b in enumerate(blocks) if not b["cleanup"] and b["t"][0] == "ret"]
        # blocks reachable from entry
        self.reach = self._reach_fwd(0)
        # blocks that can reach a return
        self.live = self._reach_bwd(self.rets)
        self.ipdom = self._ipdom()
        self.idom = self._idom()
        self.back_edges = [(u, v) for u in self.reach for v in self.succ[u] if self.dominates(v, u)]
        self.loops = self._loops()
        # innermost loop header of every block that is inside a loop
        self.innermost = {}
        for h, blks in self.loops.items():
            for b in blks:
                cur = self.innermost.get(b)
                if cur is None or len(blks) < len(self.loops[cur]):
                    self.innermost[b] = h

    def _reach_fwd(self, s):
        seen = {s}
        st = [s]
        while st:
            u = st.pop()
            for v in self.succ[u]:
                if v not in seen:
                    seen.add(v)
                    st.append(v)
        return seen

    def _reach_bwd(self, srcs):
        seen = set(srcs)
        st = list(srcs)
        while st:
            u = st.pop()
            for v in self.pred[u]:
                if v not in seen:
                    seen.add(v)
                    st.append(v)
        return seen

    def _ipdom(self):
        """immediate post-dominator among live blocks; None = virtual exit"""
        EXIT = self.n
        live = [b for b in self.live if b in self.reach]
        full = (1 << (self.n + 1)) - 1
        pd = {b: full for b in live}
        pd[EXIT] = 1 << EXIT
        succ = {}
        for b in live:
            s = [x for x in self.succ[b] if x in self.live]
            if b in self.rets:
                s = s + [EXIT]
            succ[b] = s
        changed = True
        order = sorted(live, reverse=True)
        while changed:
            changed = False
            for b in order:
                s = succ[b]
                if not s:
                    continue
                m = full
                for x in s:
                    m &= pd[x]
                m |= 1 << b
                if m != pd[b]:
                    pd[b] = m
                    changed = True
        ipd = {}
        for b in live:
            cands = pd[b] & ~(1 << b)
            # the immediate one is the candidate that is post-dominated by all other candidates
            best = None
            c = cands
            i = 0
            while c:
                if c & 1:
                    x = i
                    px = pd[x] if x != EXIT else (1 << EXIT)
                    if (cands & ~px) == 0:
                        best = x
                        break
                c >>= 1
                i += 1
            ipd[b] = None if (best is None or best == EXIT) else best
        return ipd

    def _idom(self):
        reach = sorted(self.reach)
        full = 0
        for b in reach:
            full |= 1 << b
        dom = {b: full for b in reach}
        dom[0] = 1
        changed = True
        while changed:
            changed = False
            for b in reach:
                if b == 0:
                    continue
                m = full
                for p in self.pred[b]:
                    if p in self.reach:
                        m &= dom[p]
                m |= 1 << b
                if m != dom[b]:
                    dom[b] = m
                    changed = True
        self._dom = dom
        return dom

    def dominates(self, a, b):
        d = self._dom.get(b)
        return d is not None and (d >> a) & 1 == 1

    def _loops(self):
        loops = {}
        for u, h in self.back_edges:
            body = loops.setdefault(h, {h})
            st = [u]
            while st:
                x = st.pop()
                if x in body:
                    continue
                body.add(x)
                st.extend(self.pred[x])
        return loops
