"""Fact extraction driver: runs cargo +nightly check with the mirfacts wrapper on
/repo's current working tree and caches the JSON by content hash of the tree."""
import hashlib, json, os, shutil, subprocess, sys, tempfile, time

VERIF = os.path.dirname(os.path.dirname(os.path.abspath(__file__)))
REPO = os.environ.get("VERIF_REPO", "/repo")
DRIVER = os.path.join(VERIF, "driver", "target", "release", "mirfacts")
CACHE = os.path.join(VERIF, ".cache")

CRATES = ["rand_xoshiro", "rand_xorshift", "rand_hc", "rand_isaac", "rand_jitter"]

# configuration -> (cargo args, extra rustflags)
CONFIGS = {
    "default": ["--workspace"],
    "serde": ["-p", "rand_xoshiro", "-p", "rand_isaac", "-p", "rand_xorshift", "--features",
              "rand_xoshiro/serde,rand_isaac/serde,rand_xorshift/serde"],
    "jitter-std": ["-p", "rand_jitter", "--features", "rand_jitter/std,rand_jitter/log"],
}
def crate_features(repo, crate):
    """feature names declared in the crate's Cargo.toml (the [features] table and optional dependencies are not distinguished
    further: only the table's keys)"""
    import re
    try:
        txt = open(os.path.join(repo, crate, "Cargo.toml")).read()
    except OSError:
        return []
    m = re.search(r"^\[features\]\s*$(.*?)(^\[|\Z)", txt, re.M | re.S)
    if not m:
        return []
    return [k for k in re.findall(r"^([A-Za-z0-9_\-]+)\s*=", m.group(1), re.M) if k != "default"]


def config_args(config, repo=REPO):
    """cargo arguments of a configuration.  The non-default configurations switch on EVERY feature the crates declare today
    (serde for the three crates that have it; std, log and whatever is added later for rand_jitter), so that code behind a new
    feature is analysed too"""
    if config == "jitter-std":
        feats = crate_features(repo, "rand_jitter") or ["std", "log"]
        return ["-p", "rand_jitter", "--features", ",".join("rand_jitter/" + f for f in feats)]
    if config == "serde":
        args, feats = [], []
        for c in ("rand_xoshiro", "rand_isaac", "rand_xorshift"):
            args += ["-p", c]
            feats += ["%s/%s" % (c, f) for f in (crate_features(repo, c) or ["serde"])]
        return args + ["--features", ",".join(feats)]
    return CONFIGS[config]


PROFILES = {
    "dev": "-C overflow-checks=on -C debug-assertions=on",
    "rel": "-C overflow-checks=off -C debug-assertions=off",
}


def tree_hash(repo=REPO):
    h = hashlib.sha256()
    with open(DRIVER, "rb") as f:
        h.update(hashlib.sha256(f.read()).digest())
    paths = []
    for root, dirs, files in os.walk(repo):
        dirs[:] = sorted(d for d in dirs if d not in ("target", ".git"))
        for fn in sorted(files):
            if fn.endswith(".rs") or fn in ("Cargo.toml", "Cargo.lock"):
                paths.append(os.path.join(root, fn))
    for p in paths:
        h.update(os.path.relpath(p, repo).encode())
        with open(p, "rb") as f:
            h.update(hashlib.sha256(f.read()).digest())
    return h.hexdigest()[:24]


def sysroot():
    return subprocess.check_output(["rustc", "+nightly", "--print", "sysroot"], text=True).strip()


def extract(config="default", profile="dev", repo=REPO, quiet=True):
    """-> directory containing <crate>.json for this tree/config/profile"""
    th = tree_hash(repo)
    if config != "default":
        # the feature list of a non-default configuration is read from the tree: part of the key
        th = hashlib.sha256((th + " ".join(config_args(config, repo))).encode()).hexdigest()[:24]
    out = os.path.join(CACHE, "%s-%s-%s" % (th, config, profile))
    stamp = os.path.join(out, "OK")
    if os.path.exists(stamp):
        return out
    # extract into a private directory and publish it with one rename: concurrent checks of the same tree never see (or
    # delete) each other's half-written facts
    final = out
    os.makedirs(CACHE, exist_ok=True)
    out = tempfile.mkdtemp(prefix="%s-%s-%s.tmp-" % (th, config, profile), dir=CACHE)
    td = tempfile.mkdtemp(prefix="vf-target-")
    env = dict(os.environ)
    env["LD_LIBRARY_PATH"] = os.path.join(sysroot(), "lib") + ":" + env.get("LD_LIBRARY_PATH", "")
    env["RUSTFLAGS"] = "-Zmir-opt-level=0 -Zalways-encode-mir -Awarnings " + PROFILES[profile]
    env["RUSTC_WORKSPACE_WRAPPER"] = DRIVER
    env["MIRFACTS_OUT"] = out
    env["CARGO_TARGET_DIR"] = td
    env["CARGO_NET_OFFLINE"] = "true"
    env.pop("RUSTC_WRAPPER", None)
    t0 = time.time()
    try:
        p = subprocess.run(["cargo", "+nightly", "check", "--offline"] + config_args(config, repo), cwd=repo, env=env,
                           stdout=subprocess.PIPE, stderr=subprocess.STDOUT, text=True)
    finally:
        shutil.rmtree(td, ignore_errors=True)
    if p.returncode != 0:
        shutil.rmtree(out, ignore_errors=True)
        raise RuntimeError("fact extraction failed (%s/%s):\n%s" % (config, profile, p.stdout[-4000:]))
    with open(os.path.join(out, "OK"), "w") as f:
        f.write("%.1f\n" % (time.time() - t0))
    try:
        if os.path.isdir(final) and not os.path.exists(stamp):
            shutil.rmtree(final, ignore_errors=True)  # leftover of an interrupted run of an older version
        os.rename(out, final)
    except OSError:
        shutil.rmtree(out, ignore_errors=True)  # another process published the same facts first
        if not os.path.exists(stamp):
            raise
    prune_cache(keep=th)
    return final


def prune_cache(keep):
    """drop cached facts of other trees (disk is limited)"""
    try:
        ents = [e for e in os.listdir(CACHE) if not e.startswith(keep) and os.path.isdir(os.path.join(CACHE, e))]
    except OSError:
        return
    now = time.time()

    def age(e):
        try:
            return now - os.path.getmtime(os.path.join(CACHE, e))
        except OSError:
            return 0
    ents.sort(key=age, reverse=True)
    # only entries that nothing can still be using: older than an hour, and beyond the 12 most recent
    for e in ents[:-12] if len(ents) > 12 else []:
        if age(e) > 3600:
            shutil.rmtree(os.path.join(CACHE, e), ignore_errors=True)


_LOADED = {}


def load(crate, config="default", profile="dev", repo=REPO):
    d = extract(config, profile, repo)
    p = os.path.join(d, crate + ".json")
    key = p
    if key in _LOADED:
        return _LOADED[key]
    if not os.path.exists(p):
        raise RuntimeError("anchor: no facts for crate %s in configuration %s/%s" % (crate, config, profile))
    with open(p) as f:
        j = json.load(f)
    j["_config"] = "%s/%s" % (config, profile)
    j["_hash"] = os.path.basename(d)
    _LOADED[key] = j
    return j


if __name__ == "__main__":
    cfg = sys.argv[1] if len(sys.argv) > 1 else "default"
    prof = sys.argv[2] if len(sys.argv) > 2 else "dev"
    print(extract(cfg, prof))
