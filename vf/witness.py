"""Type-level witnesses: small crates that type-check (or must fail to) against /repo's current tree."""
import json, os, shutil, subprocess, tempfile
from . import facts

WDIR = os.path.join(facts.VERIF, "witness")

CARGO = """[package]
name = "rngs_witness"
version = "0.0.0"
edition = "2021"

[lib]
path = "lib.rs"

[dependencies]
rand_core = "0.9"
rand_xoshiro = {{ path = "{repo}/rand_xoshiro" }}
rand_xorshift = {{ path = "{repo}/rand_xorshift" }}
rand_hc = {{ path = "{repo}/rand_hc" }}
rand_isaac = {{ path = "{repo}/rand_isaac" }}
rand_jitter = {{ path = "{repo}/rand_jitter" }}

[workspace]
"""

CASES = [("pos.rs", None), ("neg.rs", "E0277"), ("neg2.rs", "E0451")]


def run_all(repo=None):
    repo = repo or facts.REPO
    th = facts.tree_hash(repo)
    import hashlib
    hw = hashlib.sha256()
    for fn_ in [os.path.abspath(__file__)] + [os.path.join(WDIR, c[0]) for c in CASES]:
        with open(fn_, "rb") as f_:
            hw.update(f_.read())
    cache = os.path.join(facts.CACHE, "%s-witness-%s.json" % (th, hw.hexdigest()[:10]))
    if os.path.exists(cache):
        with open(cache) as f:
            return json.load(f)
    os.makedirs(facts.CACHE, exist_ok=True)
    d = tempfile.mkdtemp(prefix="vf-witness-")
    results = {}
    try:
        with open(os.path.join(d, "Cargo.toml"), "w") as f:
            f.write(CARGO.format(repo=repo))
        shutil.copy(os.path.join(repo, "Cargo.lock"), os.path.join(d, "Cargo.lock"))
        env = dict(os.environ)
        env["CARGO_NET_OFFLINE"] = "true"
        env["CARGO_TARGET_DIR"] = os.path.join(d, "target")
        for k in ("RUSTC_WORKSPACE_WRAPPER", "RUSTFLAGS", "RUSTC_WRAPPER"):
            env.pop(k, None)
        for src, want in CASES:
            text = open(os.path.join(WDIR, src)).read()
            if src == "neg2.rs":
                # the literal names the generator's private fields as they are called today (a renamed field must still be
                # reported as private, E0451, not as unknown)
                try:
                    fx = facts.load("rand_xoshiro", repo=repo)
                    adt = next(a for a in fx["adts"] if a["path"].endswith("::Xoshiro256PlusPlus"))
                    lit = ", ".join("%s: Default::default()" % f["name"] for f in adt["variants"][0]["fields"])
                    text = text.replace("{ s: [0; 4] }", "{ %s }" % lit)
                except Exception:
                    pass
            with open(os.path.join(d, "lib.rs"), "w") as f:
                f.write(text)
            p = subprocess.run(["cargo", "check", "--offline", "--lib", "--message-format=json"], cwd=d, env=env,
                               stdout=subprocess.PIPE, stderr=subprocess.PIPE, text=True)
            codes = []
            msgs = []
            for line in p.stdout.splitlines():
                try:
                    m = json.loads(line)
                except ValueError:
                    continue
                if m.get("reason") == "compiler-message" and m.get("target", {}).get("name") == "rngs_witness":
                    mm = m["message"]
                    if mm.get("level") == "error":
                        if mm.get("code"):
                            codes.append(mm["code"]["code"])
                        msgs.append(mm.get("message", "")[:300])
            results[src] = {"rc": p.returncode, "error_codes": codes, "messages": msgs[:4], "expected": want,
                            "stderr_tail": p.stderr[-600:] if (p.returncode != 0 and not codes) else ""}
    finally:
        shutil.rmtree(d, ignore_errors=True)
    with open(cache, "w") as f:
        json.dump(results, f)
    return results
