"""Loop summarisation for loops whose exit is not decided by constants.

The loop is replaced by: (1) every location written in the loop holds a fresh
loop variable at the header (discovered by iterating the body until the set of
differing locations is stable); (2) each variable gets an interval invariant
(join of the initial value and the value after one iteration, iterated, with
acceleration for counters of constant-trip loops, else widened to the type);
(3) one more evaluation of the body under that invariant yields the exits,
from which execution continues.  The record of the loop (variables, initial
and next values, exit conditions, per-iteration effects) is kept for the rules.
"""
from . import terms as T
from .evalmir import (SymbolicLoop, Unsupported, Struct, EnumV, ArrV, Ref, PrimV, OpaqueV, ClosureV, FnV, Lazy, Out)


class LoopRec(object):
    __slots__ = ("lid", "body", "header", "vars", "conts", "exits", "trip", "calls", "min_ticks", "nrounds", "closed")


class Havoc(object):
    """builds the header state: locations whose value differs among `examples` become loop variables"""

    def __init__(self, lid, ranges, ev=None):
        self.lid = lid
        self.ranges = ranges
        self.vars = []  # (name, (oid, path), init value, term)
        self.k = 0
        self.ev = ev
        self.used = set()

    def name(self, where, hint=""):
        """loop variables are named after the source variable they live in (function, debug name, path), so that the same loop
        gets the same normal forms in every build configuration; compiler temporaries are numbered (t<k>)"""
        root = where[0]
        info = self.ev.local_names.get(root) if self.ev is not None else None
        path = "".join("." + "".join(str(y) for y in x) for x in where[1:])
        if info is not None and info[1]:
            base = "%s.%s%s" % (info[0].split("::")[-1], info[1], path)
        elif info is not None or not (isinstance(root, tuple) and len(root) == 2):
            base = "t%d" % self.k
        else:
            base = "%s%s%s" % (root[0], root[1], path)
        self.k += 1
        name = "L%d.%s%s" % (self.lid, base, hint)
        while name in self.used:
            name += "'"
        self.used.add(name)
        return name

    def var(self, w, where, init, hint=""):
        name = self.name(where, hint)
        r = self.ranges.get(name) if self.ranges else None
        if r is not None and w > 1:
            lo, hi = r
            if lo == hi:
                t = T.const(lo, w)
            else:
                t = T.atom("rng", w, (), (name, (lo, hi)))
        else:
            t = T.sym(name, w)
        self.vars.append((name, where, init, t))
        return t

    def multi(self, vals, where):
        v0 = vals[0]
        if all(v is v0 for v in vals):
            return v0
        live = [v for v in vals if v is not None]
        if not live:
            return None
        a = live[0]
        if all(isinstance(v, Lazy) for v in live):
            return a
        if all(isinstance(v, T.T) for v in live):
            if len({v.w for v in live}) != 1:
                return OpaqueV(None, "loop-poison")
            return self.var(a.w, where, v0)
        if all(isinstance(v, Struct) for v in live) and len({len(v.fields) for v in live}) == 1:
            out = []
            for i in range(len(a.fields)):
                out.append(self.multi([(v.fields[i] if v is not None else None) for v in vals], where + (("f", i),)))
            return Struct(out)
        if all(isinstance(v, ArrV) for v in live) and len({(v.n, v.w) for v in live}) == 1:
            same_base = all(v.base is a.base and v.fill is a.fill for v in live)
            if same_base and a.n <= (1 << 16) and len(live) == len(vals):
                idx = set()
                for v in live:
                    for ci, c in enumerate(v.chunks):
                        if c is None or all(c is w_.chunks[ci] for w_ in live):
                            continue
                        for j, x in enumerate(c):
                            if x is not None:
                                idx.add((ci << 5) | j)
                arr = a
                for i in sorted(idx):
                    if i >= a.n:
                        continue
                    e = self.multi([v.get(i) for v in vals], where + (("i", i),))
                    if e is not a.get(i):
                        arr = arr.set(i, e)
                return arr
            if a.w is None:
                raise Unsupported("loop rewrites an array of aggregates wholesale")
            name = self.name(where, ".arr")
            base = T.arr_sym(name, a.n, a.w)
            self.vars.append((name, where, v0, base))
            return ArrV(a.n, a.w, None, base, {})
        if all(isinstance(v, EnumV) for v in live):
            ds = [v.discr for v in live]
            if all(isinstance(d, int) and d == ds[0] for d in ds) and len(live) == len(vals):
                discr = ds[0]
            else:
                d0 = v0.discr if isinstance(v0, EnumV) else None
                discr = self.var(64, where + (("discr",),), T.const(d0, 64) if isinstance(d0, int) else d0, ".discr")
            pay = {}
            variants = set()
            for v in live:
                variants |= set(v.payloads)
            for k in sorted(variants):
                have = [v.payloads[k] for v in live if k in v.payloads]
                n = len(have[0])
                fields = []
                for j in range(n):
                    col = [h[j] for h in have]
                    if len(have) < len(vals):
                        col = [None] + col  # absent in some example: force a fresh value
                    fields.append(self.multi(col, where + (("v", k), ("f", j))))
                pay[k] = tuple(fields)
            return EnumV(discr, pay)
        if all(isinstance(v, Ref) for v in live):
            if all(v.same(a) for v in live) and len(live) == len(vals):
                return a
            return OpaqueV(None, "loop-poison:ref")
        if all(isinstance(v, PrimV) for v in live) and len({v.kind for v in live}) == 1:
            da = [v.data if isinstance(v.data, tuple) else (v.data,) for v in live]
            if len({len(d) for d in da}) != 1:
                return OpaqueV(None, "loop-poison:prim")
            out = []
            for j in range(len(da[0])):
                col = [d[j] for d in da]
                if len(live) < len(vals):
                    col = [None] + col
                c0 = col[0]
                if all((x is c0) or (not isinstance(x, (T.T, Struct, ArrV, EnumV, Ref, PrimV, OpaqueV)) and x == c0) for x in col):
                    out.append(c0)
                elif all(isinstance(x, int) and not isinstance(x, bool) for x in col if x is not None):
                    out.append(self.var(64, where + (("p", j),), T.const(col[0], 64) if isinstance(col[0], int) else None))
                else:
                    out.append(self.multi(col, where + (("p", j),)))
            return PrimV(a.kind, tuple(out) if isinstance(a.data, tuple) else out[0])
        if all(isinstance(v, ClosureV) for v in live) and len({v.defpath for v in live}) == 1:
            ups = [self.multi([(v.upvars[i] if v is not None else None) for v in vals], where + (("f", i),)) for i in range(len(a.upvars))]
            return ClosureV(a.defpath, ups, a.key)
        if all(isinstance(v, OpaqueV) for v in live):
            if all(v.token == a.token for v in live) and len(live) == len(vals):
                return a
            self.k += 1
            return OpaqueV(a.ty, "L%d.%d.opaque" % (self.lid, self.k))
        if all(isinstance(v, FnV) for v in live):
            return a
        return OpaqueV(None, "loop-poison:mixed")


def value_at(ev, st, where):
    oid, path = where[0], where[1:]
    v = st.objs.get(oid)
    for step in path:
        if v is None:
            return None
        k = step[0]
        if k == "f":
            if isinstance(v, Struct):
                v = v.fields[step[1]]
            elif isinstance(v, ClosureV):
                v = v.upvars[step[1]]
            else:
                return None
        elif k == "i":
            v = v.get(step[1]) if isinstance(v, ArrV) else None
        elif k == "v":
            v = Struct(v.payloads.get(step[1], ())) if isinstance(v, EnumV) else None
        elif k == "discr":
            if isinstance(v, EnumV):
                v = v.discr if isinstance(v.discr, T.T) else T.const(v.discr, 64)
            else:
                return None
        elif k == "p":
            if isinstance(v, PrimV):
                d = v.data if isinstance(v.data, tuple) else (v.data,)
                v = d[step[1]]
                if isinstance(v, int) and not isinstance(v, bool):
                    v = T.const(v, 64)
            else:
                return None
        else:
            return None
    return v


def log_mark(ev):
    return (len(ev.asserts), len(ev.calls), len(ev.panics), len(ev.fmt_calls), len(ev.loops_log))


def log_reset(ev, m):
    del ev.asserts[m[0]:]
    del ev.calls[m[1]:]
    del ev.panics[m[2]:]
    del ev.fmt_calls[m[3]:]
    del ev.loops_log[m[4]:]


import os, sys
_DEBUG = os.environ.get("VF_DEBUG_LOOP")


def summarise(ev, st0, fr, H, stops):
    if not ev.summarise_loops:
        raise SymbolicLoop(fr.body["key"], H, None, None, "loop summarisation disabled")
    from . import prims as P
    L = fr.cfg.loops[H]
    exits = set()
    for b in L:
        for s in fr.cfg.succ[b]:
            if s not in L:
                exits.add(s)
    it_stops = frozenset(stops | {H} | exits)
    ev.loop_counter += 1
    lid = ev.loop_counter
    base = [oid for oid in st0.objs]
    some_pred = next(iter(p for p in fr.cfg.pred[H] if p in L), None)
    examples = {oid: [st0.objs[oid]] for oid in base}
    world_ex = [st0.world]
    ranges = {}
    mark = log_mark(ev)
    saved_counter = ev.loop_counter

    def build(ranges_):
        hv = Havoc(lid, ranges_, ev)
        s = st0.fork()
        for oid in base:
            ex = examples[oid]
            if len(ex) > 1:
                s.objs[oid] = hv.multi(ex, (oid,))
        if len(world_ex) > 1:
            s.world = T.sym("L%d.world" % lid, 1)
        return s, hv

    def iterate(s):
        pre = s.fork()
        was = H in fr.inloop
        fr.inloop.add(H)
        saved_active = dict(fr.active)
        saved_prog = fr.progress
        saved_iters = dict(fr.iters)
        saved_lp = dict(fr.loop_progress)
        fr.iters[H] = 0
        try:
            outs = ev.run(s, fr, H, it_stops, skip_header=H, pred=some_pred)
        finally:
            if not was:
                fr.inloop.discard(H)
            fr.active = saved_active
            fr.progress = saved_prog
            fr.iters = saved_iters
            fr.loop_progress = saved_lp
        return pre, outs

    # ---- fixpoint over (written locations, interval invariants): each round evaluates the body once
    from . import prims as P
    ranges = {}
    trip = None
    accel = set()
    rounds = 0
    unstable_rounds = {}
    narrowed = set()
    while True:
        rounds += 1
        if rounds > 24:
            raise Unsupported("loop at bb%d of %s: no fixpoint for written locations / intervals" % (H, fr.body["key"]))
        log_reset(ev, mark)
        ev.loop_counter = saved_counter
        s, hvf = build(ranges)
        pos = ([wh for _, wh, _, _ in hvf.vars], len(world_ex) > 1)
        c0 = len(ev.calls)
        pre, outs = iterate(s)
        # (a) new written locations?
        for o in outs:
            for oid in base:
                nv = o.st.objs.get(oid)
                pv = pre.objs.get(oid)
                if nv is pv:
                    continue
                ex = examples[oid]
                if not any(nv is e for e in ex):
                    if len(ex) < 6:
                        ex.append(nv)
                    else:
                        ex[-1] = nv
            if o.st.world is not pre.world and not any(o.st.world is w_ for w_ in world_ex):
                if len(world_ex) < 3:
                    world_ex.append(o.st.world)
                else:
                    world_ex[-1] = o.st.world
        s2_, hv2_ = build(ranges)
        pos2 = ([wh for _, wh, _, _ in hv2_.vars], len(world_ex) > 1)
        changed = pos2 != pos
        # (b) intervals
        conts = [o for o in outs if o.how == "stop" and o.at == H]
        if trip is None:
            trip = trip_bound(ev, hvf, conts, st0)
        new = dict(ranges)
        for n, wh, init, t in hvf.vars:
            if not ev.loop_intervals:
                break  # the caller wants the loop's effect only (differential comparison): no interval invariants
            if not (isinstance(t, T.T) and t.op in ("sym", "rng", "const") and t.w > 1) or n in accel:
                continue
            if n not in ranges:
                if isinstance(init, T.T):
                    new[n] = P.arange(ev, st0, init)
                    changed = True
                continue
            lo, hi = ranges[n]
            for o in conts:
                nv = value_at(ev, o.st, wh)
                if isinstance(nv, T.T):
                    nv = resolve(ev, o.st, nv)
                if not isinstance(nv, T.T) or nv.w != t.w:
                    lo, hi = 0, T.mask(t.w)
                    break
                a_, b_ = P.arange(ev, o.st, nv)
                lo, hi = min(lo, a_), max(hi, b_)
            top = (0, T.mask(t.w))
            if _DEBUG and _DEBUG in n:
                print("LOOPDBG   ", n, "old", ranges[n], "joined", (lo, hi), "unstable", unstable_rounds.get(n), "narrowed", n in narrowed,
                      [T.show(resolve(ev, o.st, value_at(ev, o.st, wh)), 3)[:200] for o in conts], file=sys.stderr)
            if ranges[n] == top and n not in narrowed and isinstance(init, T.T):
                # narrowing: the value after one iteration from an arbitrary value, joined with the initial value
                nlo, nhi = P.arange(ev, st0, init)
                okn = True
                for o in conts:
                    nv = value_at(ev, o.st, wh)
                    if isinstance(nv, T.T):
                        nv = resolve(ev, o.st, nv)
                    if not isinstance(nv, T.T) or nv.w != t.w:
                        okn = False
                        break
                    a_, b_ = P.arange(ev, o.st, nv)
                    nlo, nhi = min(nlo, a_), max(nhi, b_)
                narrowed.add(n)
                if okn and (nlo, nhi) != top:
                    new[n] = (nlo, nhi)
                    changed = True
                continue
            if (lo, hi) != ranges[n]:
                changed = True
                unstable_rounds[n] = unstable_rounds.get(n, 0) + 1
                if n in narrowed:
                    lo, hi = top  # the narrowed interval was not inductive after all
                elif unstable_rounds[n] >= 2:
                    (lo, hi), acc = widen(ev, n, t, wh, conts, ranges[n], (lo, hi), trip, st0)
                    if acc:
                        accel.add(n)
                new[n] = (lo, hi)
        if _DEBUG:
            print("LOOPDBG round", rounds, {k: v for k, v in new.items() if _DEBUG in k}, "accel", [a for a in accel if _DEBUG in a], file=sys.stderr)
        ranges = new
        if not changed:
            break

    # ---- the last round was evaluated under the final invariant: record it and continue from its exits
    rec = LoopRec()
    rec.lid = lid
    rec.body = fr.body["key"]
    rec.header = H
    rec.vars = [(n, wh, init, t, ranges.get(n)) for n, wh, init, t in hvf.vars]
    rec.conts = []
    for o in conts:
        nxt = {}
        for n, wh, init, t in hvf.vars:
            nxt[n] = value_at(ev, o.st, wh)
        rec.conts.append((o.cond, nxt, o.st.world, o.st.assume))
    rec.exits = [(o.cond, o.how, o.at) for o in outs if not (o.how == "stop" and o.at == H)]
    rec.trip = trip
    rec.calls = list(ev.calls[c0:])
    rec.min_ticks = min([tick_depth(o.st.world, pre.world) for o in conts] or [0])
    rec.nrounds = rounds
    rec.closed = False
    ev.loops_log.append(rec)
    result = []
    others = [o for o in outs if not (o.how == "stop" and o.at == H)]
    closed = bit_length_loop(ev, hvf, conts, others, rec, pre)
    if closed is not None:
        # the loop's exact effect is known: continue from the exit with the closed forms in the variables' places
        rec.closed = True
        o = others[0]
        for wh, val in closed:
            o.st.objs[wh[0]] = _with_value(o.st.objs[wh[0]], wh[1:], val)
    for o in others:
        cond = o.cond if len(others) > 1 else T.TRUE
        if o.how == "ret" or (o.how == "stop" and o.at in stops):
            result.append(Out(cond, o.st, o.how, o.at))
        else:
            for o2 in ev.run(o.st, fr, o.at, stops, pred=some_pred):
                result.append(Out(T.and1([cond, o2.cond]), o2.st, o2.how, o2.at))
    return result



def _with_value(obj, path, val):
    if not path:
        return val
    k = path[0]
    if k[0] == "f" and isinstance(obj, Struct):
        fs = list(obj.fields)
        fs[k[1]] = _with_value(fs[k[1]], path[1:], val)
        return Struct(fs)
    raise Unsupported("loop variable inside %r" % (obj,))


def bit_length_loop(ev, hv, conts, others, rec, pre):
    """`while v != 0 { v >>= 1; k += c; .. }` with nothing else happening: on exit v = 0 and every k = k0 + c * bitlen(v0).
    -> [(where, closed form)] or None"""
    if len(conts) != 1 or len(others) != 1 or rec.calls or conts[0].st.world is not pre.world or others[0].how != "stop":
        return None
    o = conts[0]
    shifted = None
    counters = []
    for n, wh, init, t in hv.vars:
        # variables that are neither the shifted value nor a constant-step counter keep their havocked value (sound: the
        # closed forms of the others do not depend on them)
        if not (isinstance(t, T.T) and isinstance(init, T.T) and t.op in ("sym", "rng") and t.w > 1):
            continue
        if any(step[0] != "f" for step in wh[1:]):
            continue
        nv = value_at(ev, o.st, wh)
        if not isinstance(nv, T.T):
            continue
        nv = resolve(ev, o.st, nv)
        if nv is T.lshr(t, 1) and shifted is None and _nonzero_known(o.st, t):
            shifted = (wh, init, t)
            continue
        d = T.sub(nv, t)
        if d.op == "const":
            counters.append((wh, init, t, d))
    if shifted is None:
        return None
    wh_v, v0, tv = shifted
    ex = others[0]
    if not (ex.cond is T.eqz(tv) or T.eqz(tv) in ex.st.assume):
        return None
    bitlen = T.sub(T.const(tv.w, 32), T.lz(v0))
    out = [(wh_v, T.const(0, tv.w))]
    for wh, init, t, d in counters:
        n_ = T.zext(bitlen, t.w) if t.w > 32 else T.trunc(bitlen, t.w) if t.w < 32 else bitlen
        out.append((wh, T.add(init, T.mul(d, n_))))
    return out


def resolve(ev, st, t):
    """strip ite nodes whose condition is decided by the path assumptions"""
    n = 0
    while isinstance(t, T.T) and t.op == "ite" and n < 64:
        r = ev.implied(st, t.args[0])
        if r is T.TRUE:
            t = t.args[1]
        elif r is T.FALSE:
            t = t.args[2]
        else:
            break
        n += 1
    return t


def simplify_under(ev, st, t):
    """rewrite t with every 1-bit atom that the path assumptions fix replaced by its value"""
    m = {}
    for a in st.assume:
        if a.w != 1:
            continue
        if a.op == "aff" and (a.aux[0] & 1) and len(a.args) == 1 and a.aux[1] == (1,):
            m[a.args[0]] = T.FALSE
        elif a.op != "const":
            m[a] = T.TRUE
    if m:
        t = T.subst(t, m)
    return resolve(ev, st, t)


def tick_depth(w, base):
    """number of opaque environment reads (timer calls) since `base` -- or since the most recent loop havoc of the
    world token, whichever comes first (a lower bound on the reads of the path)"""
    d = 0
    seen = 0
    while w is not base and seen < 100000:
        seen += 1
        if w.op == "tick":
            d += 1
            w = w.args[0]
        elif w.op == "ite":
            return d + min(tick_depth(w.args[1], base), tick_depth(w.args[2], base))
        else:
            return d
    return d


def _same(a, b):
    from .harness import same_value
    try:
        return same_value(a, b)
    except Exception:
        return False


def trip_bound(ev, hv, conts, st0):
    """N such that the body is entered at most N times: a variable i with i' = i + 1 on every continue path whose
    continue condition contains i < C (C constant) and whose initial value is a constant"""
    for n, wh, init, t in hv.vars:
        if not (isinstance(t, T.T) and isinstance(init, T.T) and init.op == "const") or not conts:
            continue
        okk = True
        bound = None
        for o in conts:
            nv = value_at(ev, o.st, wh)
            if isinstance(nv, T.T):
                nv = resolve(ev, o.st, nv)
            if not isinstance(nv, T.T) or nv.w != t.w or T.sub(nv, t) is not T.const(1, t.w):
                okk = False
                break
            b = None
            for a in o.st.assume:
                if a.op == "ult" and a.args[0] is t and a.args[1].op == "const":
                    b = a.args[1].aux
                elif a.op == "slt" and a.args[0] is t and a.args[1].op == "const":
                    b = a.args[1].aux
            if b is None:
                okk = False
                break
            bound = b if bound is None else max(bound, b)
        if okk and bound is not None and bound >= init.aux:
            return bound - init.aux
    return countdown_bound(ev, hv, conts)


def _nonzero_known(st, t):
    nz = T.bnot(T.eqz(t))
    return any(a is nz or (a.op == "ult" and a.args[0].op == "const" and a.args[0].aux == 0 and a.args[1] is t) for a in st.assume)


def countdown_bound(ev, hv, conts):
    """loops counted downwards: one variable K, K-1, ... left when it reaches 0, or two of them of which exactly one is
    decreased per iteration (a warm-up phase followed by a measured phase): the body is entered at most K (K1 + K2) times"""
    from .evalmir import add_assume
    cands = [(n, wh, init, t) for n, wh, init, t in hv.vars
             if isinstance(t, T.T) and isinstance(init, T.T) and init.op == "const" and t.op in ("sym", "rng") and t.w > 1]
    if not conts:
        return None

    def steps(o, wh, t):
        """set of (delta, guarded) of the variable on this continue path, split on the condition of a top-level ite"""
        nv = value_at(ev, o.st, wh)
        if not isinstance(nv, T.T):
            return None
        nv = resolve(ev, o.st, nv)
        return nv

    # a value shifted right until it is zero (`while v != 0 { v >>= 1; .. }`): at most as many iterations as v has bits
    for n, wh, init, t in hv.vars:
        if isinstance(t, T.T) and t.op in ("sym", "rng") and t.w > 1 and isinstance(init, T.T):
            if all(steps(o, wh, t) is T.lshr(t, 1) and _nonzero_known(o.st, t) for o in conts):
                return t.w
    # one counter
    for n, wh, init, t in cands:
        ok = True
        for o in conts:
            nv = steps(o, wh, t)
            if nv is None or nv is not T.sub(t, T.const(1, t.w)) or not _nonzero_known(o.st, t):
                ok = False
                break
        if ok:
            return init.aux
    # two counters, exactly one of them decreased per iteration, never below zero
    for i, (n1, wh1, init1, t1) in enumerate(cands):
        for n2, wh2, init2, t2 in cands[i + 1:]:
            ok = True
            for o in conts:
                a, b = steps(o, wh1, t1), steps(o, wh2, t2)
                if a is None or b is None:
                    ok = False
                    break
                conds = [x.args[0] for x in (a, b) if x.op == "ite"]
                if not conds:
                    ok = False
                    break
                c = conds[0]
                for pol in (c, T.bnot(c)):
                    s2 = o.st.fork()
                    add_assume(s2, pol)
                    a2, b2 = simplify_under(ev, s2, a), simplify_under(ev, s2, b)
                    d1 = a2 is T.sub(t1, T.const(1, t1.w)) and b2 is t2 and (_nonzero_known(s2, t1))
                    d2 = b2 is T.sub(t2, T.const(1, t2.w)) and a2 is t1 and (_nonzero_known(s2, t2))
                    if not (d1 or d2):
                        ok = False
                        break
                if not ok:
                    break
            if ok:
                return init1.aux + init2.aux
    return None


def delta_range(ev, st, nv, t, depth=0):
    """interval of (nv - t) when nv = t + d (through ite merges) and d does not mention t; else None"""
    from . import prims as P
    nv = resolve(ev, st, nv)
    if nv is t:
        return (0, 0)
    if nv.op == "ite" and depth < 8:
        a = delta_range(ev, st, nv.args[1], t, depth + 1)
        b = delta_range(ev, st, nv.args[2], t, depth + 1)
        if a is None or b is None:
            return None
        return (min(a[0], b[0]), max(a[1], b[1]))
    d = T.sub(nv, t)
    if t.id in _atom_ids(d):
        return None
    return P.arange(ev, st, d)


def widen(ev, name, t, wh, conts, old, new, trip, st0):
    """the interval grew: accelerate counters of constant-trip loops, else go to the type's range"""
    w = t.w
    if trip is not None:
        dhi = 0
        dlo = 0
        okk = True
        half = 1 << (w - 1)
        for o in conts:
            nv = value_at(ev, o.st, wh)
            if not isinstance(nv, T.T):
                okk = False
                break
            r = delta_range(ev, o.st, nv, t)
            if r is None:
                okk = False
                break
            if r[1] < half:
                dhi = max(dhi, r[1])
            elif r[0] >= half:
                dlo = min(dlo, r[0] - (1 << w))  # a decrement: the difference is negative
            else:
                okk = False
                break
        if okk:
            hi = old[1] + trip * dhi
            lo = max(0, min(old[0], new[0]) + trip * dlo) if dlo else min(old[0], new[0])
            if hi <= T.mask(w):
                return (lo, max(hi, old[1])), True
    return (0, T.mask(w)), False


def _atom_ids(t):
    out = set()
    stack = [t]
    while stack:
        x = stack.pop()
        if not isinstance(x, T.T) or x.id in out:
            continue
        out.add(x.id)
        if x.op == "ring":
            for mono, _ in x.aux:
                for i in mono:
                    stack.append(T._ATOM[i])
        stack.extend(x.args)
    return out
