"""C19 - generators share no hidden state."""
import re
from .. import facts, sq, witness
from ..harness import Crate, Anchor

RULE = ("exhaustive enumeration over the compiler's item tables and the resolved call graph: (R1) the set of statics / thread-locals / interior-"
        "mutable consts of the five crates is exactly the frozen set, and only the frozen functions access them; (R2) the transitive field types of "
        "every generator are plain data (compiler-computed Freeze, no reference / pointer / cell / atomic / lock / Rc / Box); (R3) from every "
        "generator operation the reachable instances contain no static access, foreign function, allocation or I/O, and every callee without a "
        "body is a classified primitive or an opaque call on a generic parameter; (R4) a witness crate type-checks iff all generator types are "
        "Send + Sync + 'static, with compile-fail twins")
EXPLANATION = ("Absence of constructs, decided by enumeration of the type-checked program in the default and std/log configurations. Together with "
               "C10 (operations are functions of the fields) this gives independence under any interleaving; data races are excluded by &mut.")

STATICS_ALLOWED = {"default": set(), "jitter-std": {"rand_jitter::JITTER_ROUNDS"}}
STATIC_READERS = {"rand_jitter::JITTER_ROUNDS": {"rand_jitter::JitterRng::<()>::new"}}

GENERATORS = {
    "rand_xoshiro": None,  # all public ADTs
    "rand_xorshift": ["XorShiftRng"],
    "rand_hc": ["Hc128Rng", "Hc128Core"],
    "rand_isaac": ["IsaacRng", "Isaac64Rng", "IsaacCore", "Isaac64Core", "IsaacArray"],
    "rand_jitter": ["JitterRng"],
}
BAD_ADT = re.compile(r"^(core|std|alloc)::(cell|sync|rc|boxed|ptr|thread|collections|vec|string)::")
OK_ADT_PREFIX = ("core::num::Wrapping", "core::marker::PhantomData")

# callees without a body that generator operations may reach
OPAQUE_OK = re.compile(r"^(core::ops::(Fn|FnMut|FnOnce)::call(_mut|_once)?|rand_core::(RngCore|TryRngCore)::\w+|core::clone::Clone::clone|"
                       r"core::default::Default::default)$")
EFFECT_BAD = re.compile(r"(^std::(io|fs|net|process|env|thread|sync)|^alloc::|^std::alloc|::alloc::|libc::|winapi::)")
# constructor that legitimately consults the clock and the cached round count (feature std)
NEW_ROOT = "rand_jitter::JitterRng::<()>::new"
STD_ONLY_OK = re.compile(r"^((rand_jitter::)?std::time::|core::time::|core::sync::atomic::|log::|core::result::Result::<T, E>::unwrap|core::fmt::|core::cmp::PartialOrd::le$)")


CORE_BAD = re.compile(r"^core::(sync|cell|alloc|intrinsics::atomic|ptr::(write|read)_volatile)")


def callee_ok(c, config, std_ok=False):
    """may a generator operation reach this callee that has no followed body?"""
    d = c.get("rdef") or c.get("def") or ""
    kr = c.get("rkrate") or c.get("krate")
    if c.get("why") == "unresolved":
        return bool(OPAQUE_OK.match(c.get("def", "")))
    if kr == "core":
        if d == "core::ptr::read_volatile":
            return True  # black_box: a read of a local
        return not CORE_BAD.match(d)
    if kr in ("rand_core",) + tuple(facts.CRATES):
        return True
    if kr == "log" and config == "jitter-std":
        return True
    if std_ok and (kr == "std" and re.match(r"^(rand_jitter::)?std::time::", d)):
        return True
    return False


def generator_adts(crate):
    want = GENERATORS[crate.name]
    out = []
    for a in crate.facts["adts"]:
        ident = a["path"].split("::")[-1]
        if want is None:
            if a["pub"]:
                out.append(a)
        elif ident in want:
            out.append(a)
    return out


import re as _re
ADDRESS_FNS = _re.compile(r"::(align_offset|addr|expose_provenance|expose_addr|is_aligned|is_aligned_to|as_ptr_range)$|core::ptr::(addr_eq|eq|from_exposed_addr)")


def op_roots(crate, adt_paths):
    """all methods of all impls whose self type is a generator ADT"""
    roots = []
    generic_adts = {a["path"] for a in crate.facts["adts"] if a.get("generics")}
    for im in crate.facts["impls"]:
        if im.get("self_adt") in adt_paths:
            for key in im["methods"].values():
                b = crate.bodies.get(key)
                if b is not None and im.get("trait") is None and not b.get("pub", True) and b.get("poly") and im["self_adt"] not in generic_adts:
                    # a private helper with type parameters of its own: its uninstantiated body has unresolved trait calls;
                    # the instances the public operations use are reached through them
                    continue
                roots.append(key)
    return roots


def run(chk, tier):
    from .. import prims
    ngen = 0
    for config in ("default", "jitter-std"):
        names = facts.CRATES if config == "default" else ["rand_jitter"]
        for cname in names:
            crate = Crate(cname, config)
            chk.config(crate.config)
            f = crate.facts
            # ---- R1
            # state-carrying statics (mutable, interior-mutable or thread-local); a plain immutable static is a named table
            plain = {s["path"] for s in f["statics"] if not (s["mutable"] or s["interior_mut"] or s["thread_local"])}
            st = {s["path"] for s in f["statics"]} - plain
            allowed = {s for s in STATICS_ALLOWED[config] if s.startswith(cname + "::")}
            chk.ob("R1", "%s[%s]|statics" % (cname, config), st == allowed,
                   "statics that can hold state %s, frozen set %s (read-only tables: %s)" % (sorted(st), sorted(allowed), sorted(plain)), nontrivial=bool(st),
                   sample={"crate": cname, "config": config, "statics": sorted(st)} if st else None)
            tl = [s["path"] for s in f["statics"] if s["thread_local"]]
            chk.ob("R1", "%s[%s]|thread-locals" % (cname, config), not tl, "thread-local statics: %s" % tl, nontrivial=False)
            mut = [s["path"] for s in f["statics"] if s["mutable"]]
            chk.ob("R1", "%s[%s]|static mut" % (cname, config), not mut, "static mut: %s" % mut, nontrivial=False)
            im_consts = [c["path"] for c in f["consts"] if c.get("interior_mut")]
            chk.ob("R1", "%s[%s]|interior-mutable consts" % (cname, config), not im_consts, "consts: %s" % im_consts, nontrivial=False)
            ext = list(f["foreign"])
            chk.ob("R1", "%s[%s]|foreign items" % (cname, config), not ext, "extern items: %s" % ext, nontrivial=False)
            # who accesses statics
            for key, b in crate.bodies.items():
                if b["krate"] != cname:
                    continue
                for sname, sp in sq.static_refs(b):
                    if sname in plain:
                        continue
                    okr = key in STATIC_READERS.get(sname, set())
                    chk.ob("R1", "%s[%s]|static %s accessed in %s" % (cname, config, sname, key), okr,
                           "" if okr else "static accessed outside the frozen reader set at %s" % sp[0], where=sp[0])
            # ---- R2 / R3 per generator
            adts = generator_adts(crate)
            paths = {a["path"] for a in adts}
            for a in adts:
                if config == "default":
                    ngen += 1
                ident = a["path"].split("::")[-1]
                if not a["generics"]:
                    chk.ob("R2", "%s[%s]|Freeze (no interior mutability, compiler-computed)" % (ident, config), a["freeze"],
                           "type is not Freeze", nontrivial=False)
                tyid = crate.ty_of_adt(a["path"])
                clos = sq.field_type_closure(crate.tys, tyid)
                bad = []
                for tid, path in clos.items():
                    t = crate.tys[tid]
                    k = t["k"]
                    if k in ("ref", "ptr", "fnptr", "dyn", "float", "closure", "str", "slice", "other", "alias"):
                        bad.append("%s: %s" % (path, t["s"]))
                    elif k == "adt" and BAD_ADT.match(t["def"]) and not t["def"].startswith(OK_ADT_PREFIX):
                        bad.append("%s: %s" % (path, t["s"]))
                    elif k == "adt" and t["adt_kind"] == "union":
                        bad.append("%s: union %s" % (path, t["s"]))
                    elif k == "param" and not (cname == "rand_jitter" or ident == "IsaacArray"):
                        bad.append("%s: type parameter %s" % (path, t["s"]))
                chk.ob("R2", "%s[%s]|transitive field types are plain data" % (ident, config), not bad,
                       "non-plain field types: %s" % bad[:4] if bad else "%d types in closure" % len(clos),
                       sample={"type": ident, "field_type_closure": sorted({crate.tys[t]["s"] for t in clos})[:12]} if config == "default" and ident in ("Hc128Rng", "JitterRng", "Xoshiro256PlusPlus") else None)
            roots = op_roots(crate, paths)
            roots_wo_new = [r for r in roots if r != NEW_ROOT]
            summarised = lambda c: (c.get("rdef") in prims.TABLE or c.get("def") in prims.TABLE)
            seen, leaves = sq.reachable(crate.bodies, roots_wo_new, summarised, crate.tys)
            for k in seen:
                chk.body(k)
            nstat = 0
            for k in seen:
                for sname, sp in sq.static_refs(crate.bodies[k]):
                    if sname in plain:
                        continue  # a read-only table
                    nstat += 1
                    chk.ob("R3", "%s[%s]|generator operation %s touches static %s" % (cname, config, k, sname), False,
                           "static access reachable from a generator operation", where=sp[0])
            # R5: nothing a generator operation computes may depend on where a value lives: no pointer-to-integer cast and none of
            # the address-inspecting library functions in any reachable body (rand_core's own bodies excepted: its byte views
            # cast pointers between pointee types only, which is not a pointer-to-integer cast)
            addr = []
            for k in seen:
                bb = crate.bodies[k]
                for _, s_ in sq.iter_stmts(bb):
                    if s_[0] == "a" and s_[2][0] == "cast" and ("PointerExpose" in s_[2][1] or "PointerWithExposed" in s_[2][1]):
                        addr.append("%s cast at %s" % (s_[2][1], s_[3][0] if len(s_) > 3 and s_[3] else bb["span"][0]))
            for caller, c, sp in leaves:
                d_ = c.get("rdef") or c.get("def") or ""
                if ADDRESS_FNS.search(d_):
                    addr.append("%s called at %s" % (d_, sp[0]))
            chk.ob("R5", "%s[%s]|no generator operation depends on an address (pointer-to-integer casts, align_offset, addr, ...)" % (cname, config),
                   not addr, "address-dependent: %s" % addr[:4], nontrivial=bool(addr))
            unknown = {}
            for caller, c, sp in leaves:
                if "indirect" in c:
                    unknown.setdefault("indirect call", []).append("%s at %s" % (caller, sp[0]))
                    continue
                d = c.get("rdef") or c.get("def")
                if not callee_ok(c, config):
                    unknown.setdefault(d, []).append("%s at %s" % (caller, sp[0]))
            chk.ob("R3", "%s[%s]|every body-less callee reachable from a generator operation is a classified primitive" % (cname, config),
                   not unknown, "unclassified callees: %s" % {k: v[:2] for k, v in list(unknown.items())[:6]} if unknown else
                   "%d reachable bodies, %d body-less call sites" % (len(seen), len(leaves)),
                   sample={"crate": cname, "config": config, "reachable_bodies": len(seen), "bodyless_call_sites": len(leaves)})
            chk.ob("R3", "%s[%s]|no static access reachable" % (cname, config), nstat == 0, "%d accesses" % nstat, nontrivial=False)
            if NEW_ROOT in crate.bodies:
                seen2, leaves2 = sq.reachable(crate.bodies, [NEW_ROOT], summarised, crate.tys)
                bad2 = []
                for caller, c, sp in leaves2:
                    d = c.get("rdef") or c.get("def") or "indirect"
                    if "indirect" in c or not (callee_ok(c, config, std_ok=True) or d.startswith("core::sync::atomic::")):
                        bad2.append("%s in %s" % (d, caller))
                chk.ob("R3", "rand_jitter[%s]|JitterRng::new only consults the clock and the cached round count" % config, not bad2,
                       "other effects: %s" % bad2[:5], nontrivial=True)
    # ---- R4 witnesses
    res = witness.run_all()
    for src, r in sorted(res.items()):
        if r["expected"] is None:
            okw = r["rc"] == 0
            chk.ob("R4", "witness %s|all generator types are Send + Sync + 'static" % src, okw,
                   "" if okw else "witness crate does not type-check: %s %s" % (r["messages"], r["stderr_tail"][-300:]),
                   sample={"witness": src, "result": "type-checks"})
        else:
            okw = r["rc"] != 0 and r["expected"] in r["error_codes"]
            chk.ob("R4", "witness %s|must fail with %s" % (src, r["expected"]), okw,
                   "got rc=%s codes=%s" % (r["rc"], r["error_codes"]), nontrivial=False)
    chk.floor("R0", "generator / core types", ngen, 24)
