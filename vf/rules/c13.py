"""C13 - test_timer returns Ok(r) only with a usable r >= 1, else a TimerError that holds."""
from .. import terms as T, sq, prims as P, loops as LP
from ..harness import (Crate, State, Ref, ArrV, Struct, EnumV, OpaqueV, Anchor, Unsupported, SymbolicLoop, Diverged, symbolic_args)
from ..evalmir import add_assume
from . import c14

RULE = ("test_timer is abstractly evaluated for an arbitrary timer (each reading an opaque atom; the probe loop replaced by its interval "
        "invariant with the 400-trip bound). (R1) under the assumption that the result is Ok, the interval of the returned value is within "
        "[1,128]; (R2) the small-mean branch is a lookup in the extracted constant table whose every feasible entry e at index i satisfies "
        "e >= 1 and e*bitlen(i) >= 128, the large-mean branch is the term (127 + l) / l with l = 64 - lz(mean) >= 5; (R3) the result's "
        "Ok/Err structure is exactly: in-loop NoTimer iff a reading is 0, CoarseTimer iff the 32-bit delta is 0, then NotMonotonic iff "
        "backwards > 3, TinyVariations iff delta_sum < 2*300, CoarseTimer iff count_mod > 270, TooManyStuck iff count_stuck > 270, else Ok, "
        "and the counters are incremented by exactly the documented predicates; (R5) set_rounds panics exactly when rounds == 0")
TRUSTED = ["rustc nightly MIR", "primitive table (vf/prims.py)", "interval reasoning and loop invariants (vf/loops.py)",
           "each timer reading is an unconstrained 64-bit value"]

VARIANTS = ["NoTimer", "CoarseTimer", "NotMonotonic", "TinyVariations", "TooManyStuck"]
TESTLOOP = 300


def bitlen(i):
    return i.bit_length()


def chain(d):
    """flatten ite(c1, v1, ite(c2, v2, ... vn)) -> ([(c1, v1), (c2, v2)...], vn)"""
    out = []
    while isinstance(d, T.T) and d.op == "ite":
        c, a, b = d.args
        if b.op == "const" and a.op != "const":
            # merged form ite(!g1 & !g2 & ..., rest, v): every gi alone gives v
            for x in (c.args if c.op == "and1" else (c,)):
                out.append((T.bnot(x), b))
            d = a
            continue
        out.append((c, a))
        d = b
    if isinstance(d, T.T) and d.op != "const" and d.w > 1:
        bit = T._bool_word_bit(d)  # ite(c, 1, 0) is normalised to the zero-extended condition
        if bit is not None:
            out.append((bit, T.const(1, d.w)))
            d = T.const(0, d.w)
    return out, d


def _mentions(t, atom):
    seen = set()
    stack = [t]
    while stack:
        x = stack.pop()
        if not isinstance(x, T.T) or x.id in seen:
            continue
        if x is atom:
            return True
        seen.add(x.id)
        if x.op == "ring":
            for mono, _ in x.aux:
                for i in mono:
                    stack.append(T._ATOM[i])
        stack.extend(x.args)
    return False


def resolve_all(ev, st, t):
    return LP.resolve(ev, st, t)


def run(chk, tier):
    from ..report import Suffixed
    run_config(chk, tier, None)
    # the same with the optional features on (std + log): the logging macros expand to code there
    run_config(Suffixed(chk, " [std+log]"), tier, "jitter-std")


def run_config(chk, tier, config):
    crate = Crate("rand_jitter", config) if config else Crate("rand_jitter")
    crate.neutral_crates = {"log"}  # the log facade gets formatted copies only (that it cannot reach the generator is C19's)
    chk.config(crate.config)
    tdef = sq.find_method(crate, "rand_jitter::JitterRng::<F>::test_timer", "JitterRng", "test_timer")
    key = next((k for k in crate.bodies if crate.bodies[k]["def"] == tdef), None)
    if key is None:
        raise Anchor("JitterRng::test_timer not found")
    body = crate.body(key)
    chk.body(key)
    where = body["span"][0]
    try:
        ev, st, args, ret, body, hc = c14.eval_root(crate, key)
    except (Unsupported, SymbolicLoop, Diverged) as e:
        chk.ob("R1", "test_timer|analysable", False, "abstract evaluation failed: %s" % e, where=where)
        return
    okshape = isinstance(ret, EnumV) and 0 in ret.payloads and 1 in ret.payloads and isinstance(ret.discr, T.T)
    chk.ob("R0", "test_timer|returns Result with both variants reachable", okshape, "result %r" % (ret,), nontrivial=False, where=where)
    if not okshape:
        return
    r = ret.payloads[0][0]
    errv = ret.payloads[1][0]
    # loops of test_timer itself (loops with an exact closed form are plain arithmetic; loops of library combinators belong to the
    # helpers that use them)
    recs = [x for x in ev.loops_log if not x.closed and x.body == key]
    warm = None
    if len(recs) == 2:
        # the same 400 probes as a warm-up loop of 100 followed by a measuring loop of 300
        by = sorted(recs, key=lambda r_: r_.trip or 0)
        if by[0].trip == 100 and by[1].trip == 300 and recs.index(by[0]) < recs.index(by[1]):
            warm, rec = by
        else:
            chk.ob("R0", "test_timer|probe loops", False, "two loops with trip bounds %s (expected 100 warm-up probes, then 300 measured ones)" % (
                [r_.trip for r_ in recs],), where=where)
            return
        chk.ob("R3", "probe loops|100 cache-clearing probes, then 300 measured ones", True, "", where=where)
    elif len(recs) == 1:
        rec = recs[0]
        chk.ob("R3", "probe loop|constant trip count 400 (100 cache-clearing + 300 measured)", rec.trip == 400, "trip bound %s" % rec.trip, where=where)
    else:
        chk.ob("R0", "test_timer|one probe loop", False, "%d summarised loops in test_timer" % len(recs), where=where)
        return
    nguards = 5 if warm is None else 6

    # ---- structure of the discriminant: in-loop exits first, then the four post-loop guards
    ch, last = chain(ret.discr)
    oks = len(ch) == nguards and last.op == "const" and last.aux == 0 and all(v.op == "const" and v.aux == 1 for _, v in ch)
    chk.ob("R3", "result|Ok iff no guard fires: discriminant is a chain of %d guards" % nguards, oks, "discriminant %s" % T.show(ret.discr, 8), where=where)
    if not oks:
        return
    # the guard that says "still inside the probe loop" (an in-loop exit), and the four post-loop guards in the documented order;
    # the order inside the normal form is immaterial, each guard is recognised by its shape and by the error it returns alone
    conds = [c for c, _ in ch]
    def loop_test(k_):
        hits = [c for c in conds if c.op == "ult" and c.args[1].op == "const" and c.args[1].aux == k_ and c.args[0].op in ("sym", "rng")]
        return hits[0] if len(hits) == 1 else None
    ltw = None
    measured = None  # extra condition under which an iteration of the single loop is a measured one
    if warm is None:
        lt = loop_test(400)
        if lt is not None:
            ivar = lt.args[0]
            measured = T.bnot(T.ult(ivar, T.const(100, ivar.w)))
        else:
            # counted downwards in two phases: `while remaining != 0 { ...; if warm_up != 0 { warm_up -= 1; continue } ...; remaining -= 1 }`
            byinit = {}
            for n_, wh_, init_, t_, rng_ in rec.vars:
                if isinstance(init_, T.T) and init_.op == "const" and isinstance(t_, T.T):
                    byinit.setdefault(init_.aux, []).append(t_)
            rem = [t_ for t_ in byinit.get(300, []) if T.bnot(T.eqz(t_)) in conds]
            wup = byinit.get(100, [])
            if len(rem) == 1 and len(wup) == 1:
                lt = T.bnot(T.eqz(rem[0]))
                ivar = rem[0]
                measured = T.eqz(wup[0])
            else:
                lt = conds[0]
                ivar = None
    else:
        lt, ltw = loop_test(300), loop_test(100)
        if lt is None or ltw is None:
            chk.ob("R3", "guards|anchors", False, "loop tests of the warm-up and measuring loops not found among the guards", where=where)
            return
        ivar = lt.args[0]
    rest = [c for c in conds if c is not lt and c is not ltw]
    errv_ = ret.payloads[1][0]
    edis_ = errv_.discr if isinstance(errv_, EnumV) else None

    def alone(c):
        s2 = st.fork()
        s2.assume = ()
        for a_ in [T.bnot(lt)] + ([T.bnot(ltw)] if ltw is not None else []) + [T.bnot(o) for o in rest if o is not c] + [c]:
            add_assume(s2, a_)
        d_ = LP.simplify_under(ev, s2, edis_) if isinstance(edis_, T.T) else None
        return VARIANTS[d_.aux] if d_ is not None and d_.op == "const" and d_.aux < len(VARIANTS) else None
    byname = {}
    for c in rest:
        byname.setdefault(alone(c), c)
    order = ["NotMonotonic", "TinyVariations", "CoarseTimer", "TooManyStuck"]
    g = [byname.get(n) for n in order]
    if any(x is None for x in g):
        # fall back to the textual order of the chain
        g = rest
    shapes = [
        ("NotMonotonic", "slt", 0, 3, "time_backwards > 3"),
        ("TinyVariations", "ult", 1, 2 * TESTLOOP, "delta_sum < 2*TESTLOOPCOUNT (mean below 2 credits zero bits)"),
        ("CoarseTimer", "ult", 0, TESTLOOP * 9 // 10, "count_mod > 270 (90% of 300)"),
        ("TooManyStuck", "ult", 0, TESTLOOP * 9 // 10, "count_stuck > 270 (90% of 300)"),
    ]
    vars_ = []
    loopvars = {t_: rng_ for n_, wh_, init_, t_, rng_ in rec.vars if isinstance(t_, T.T)}
    for (name, op, cpos, cval, text), c in zip(shapes, g):
        # the backwards counter may be a signed or an unsigned integer: `> 3` is slt resp. ult with the constant on the left
        shape = (c.op == op or (name == "NotMonotonic" and c.op == "ult")) and c.args[cpos].op == "const"
        okg = shape and c.args[cpos].aux == cval
        v = c.args[1 - cpos] if shape else None
        okg = okg and v is not None and v.op in ("sym", "rng")
        if not okg and name != "TinyVariations":
            # any other way of writing the same threshold (`>= 4`, `c * 10 > 300 * 9`, ...): the guard mentions one counter with a
            # small interval invariant, and it is evaluated for every value of that interval
            cands = [t_ for t_ in loopvars if loopvars[t_] and loopvars[t_][1] <= 4096 and t_.w > 1 and _mentions(c, t_)]
            if len(cands) == 1:
                v = cands[0]
                lo_, hi_ = loopvars[v]
                okg = True
                for k_ in range(lo_, hi_ + 1):
                    val = T.subst(c, {v: T.const(k_, v.w)})
                    if val.op != "const" or bool(val.aux) != (k_ > cval):
                        okg = False
                        break
        vars_.append(v)
        chk.ob("R3", "guard %s|%s" % (name, text), okg, "found %s" % T.show(c, 4), where=where,
               sample={"guard": name, "condition": T.show(c, 4)})
    if ivar is None or any(v is None for v in vars_):
        chk.ob("R3", "guards|anchors", False, "guard structure not recognised", where=where)
        return
    tb, ds, cm, cs = vars_
    # which error each guard returns
    edis = errv.discr if isinstance(errv, EnumV) else None
    def variant_under(assumps):
        s2 = st.fork()
        s2.assume = ()
        for a in assumps:
            add_assume(s2, a)
        d = LP.simplify_under(ev, s2, edis) if isinstance(edis, T.T) else T.const(edis, 64)
        return VARIANTS[d.aux] if d.op == "const" and d.aux < len(VARIANTS) else T.show(d, 3)
    nl = T.bnot(lt)
    pre = [nl] + ([T.bnot(ltw)] if ltw is not None else [])
    for (name, op, cpos, cval, text), c in zip(shapes, g):
        got = variant_under(pre + [c])
        chk.ob("R3", "guard %s|returns Err(%s)" % (name, name), got == name, "returns %s" % got, where=where)
        pre.append(T.bnot(c))
    # ---- in-loop exits: readings of one probe
    def probe_exits(rec_, lt_, label, outer):
        tcalls_ = [c for c in rec_.calls if c[1].endswith("core::ops::Fn<()>>::call") or "Fn<()>>::call" in c[1]]
        chk.ob("R3", "%sprobe|four timer readings per iteration" % label, len(tcalls_) == 4, "%d readings" % len(tcalls_), where=where, nontrivial=False)
        if len(tcalls_) != 4:
            return None
        r1_ = T.atom("res", 64, (tcalls_[0][4],), "ret")
        r4_ = T.atom("res", 64, (tcalls_[3][4],), "ret")
        d32_ = T.trunc(T.sub(r4_, r1_), 32)
        z1_, z4_, zd_ = T.eqz(r1_), T.eqz(r4_), T.eqz(d32_)
        expect = {
            "loop exit": T.bnot(lt_),
            "NoTimer (first reading 0)": T.and1([lt_, z1_]),
            "NoTimer (second reading 0)": T.and1([lt_, T.bnot(z1_), z4_]),
            "CoarseTimer (32-bit delta 0)": T.and1([lt_, T.bnot(z1_), T.bnot(z4_), zd_]),
        }
        got = {c for c, h, a in rec_.exits}
        merged = T.and1([lt_, T.bnot(T.and1([T.bnot(z1_), T.bnot(z4_), T.bnot(zd_)]))])
        if len(got) == 2 and merged in got and expect["loop exit"] in got:
            # the probe lives in a helper whose error is propagated with `?`: one exit for "some reading or the delta is zero"
            chk.ob("R3", "%sin-loop exit|left with an error exactly when a reading or the 32-bit delta is zero" % label, True, "", where=where)
        elif len(got) == 3 and expect["loop exit"] in got and \
                T.and1([lt_, T.ite(T.ult(r1_, r4_), z1_, z4_)]) in got and \
                T.and1([lt_, T.bnot(T.ite(T.ult(r1_, r4_), z1_, z4_)), zd_]) in got:
            # `min(time, time2) == 0` for `time == 0 || time2 == 0` (unsigned: the smaller one is zero iff one of them is)
            chk.ob("R3", "%sin-loop exit|NoTimer when the smaller reading is 0, CoarseTimer when the 32-bit delta is 0" % label, True, "", where=where)
            expect = {"NoTimer (first reading 0)": T.and1([lt_, z1_]), "NoTimer (second reading 0)": T.and1([lt_, T.bnot(z1_), z4_]),
                      "CoarseTimer (32-bit delta 0)": T.and1([lt_, T.bnot(z1_), T.bnot(z4_), zd_])}
        else:
            for name, e in expect.items():
                chk.ob("R3", "%sin-loop exit|%s" % (label, name), e in got, "expected exit condition %s not among the loop's exits" % T.show(e, 3), where=where)
            chk.ob("R3", "%sin-loop exits|no other exit" % label, len(got) == 4, "%d exits" % len(got), nontrivial=False)
        for name, var in (("NoTimer (first reading 0)", "NoTimer"), ("NoTimer (second reading 0)", "NoTimer"),
                          ("CoarseTimer (32-bit delta 0)", "CoarseTimer")):
            gotv = variant_under(outer + [expect[name]])
            chk.ob("R3", "%sin-loop exit|%s returns Err(%s)" % (label, name, var), gotv == var, "returns %s" % gotv, where=where)
        return r1_, r4_, d32_, z1_, z4_, zd_
    if warm is not None:
        probe_exits(warm, ltw, "warm-up ", [])
        # the warm-up probes only look at the readings: nothing that is evaluated later may be written there
        later = {tuple(wh_) for n_, wh_, init_, t_, rng_ in rec.vars if t_ in (vars_[0], vars_[1], vars_[2], vars_[3])}
        touched = [n_ for n_, wh_, init_, t_, rng_ in warm.vars if tuple(wh_) in later]
        chk.ob("R3", "warm-up loop|does not touch the counters", not touched, "written in the warm-up loop: %s" % touched, where=where)
    pe = probe_exits(rec, lt, "", [T.bnot(ltw)] if ltw is not None else [])
    if pe is not None:
        r1, r4, d32, z1, z4, zd = pe
        # counters: increments in measured iterations (i >= 100) on the continue path
        if rec.conts:
            cond, nxt, world, assume = rec.conts[0]
            s3 = st.fork()
            s3.assume = tuple(assume)
            if warm is None and measured is not None:
                add_assume(s3, measured)  # measured iterations of the single loop
            for a_ in (lt, T.bnot(z1), T.bnot(z4), T.bnot(zd)):
                add_assume(s3, a_)
            names = {v.aux if v.op == "sym" else v.aux[0]: v for v in (tb, ds, cm, cs)}
            def nxt_of(v):
                n = v.aux if v.op == "sym" else v.aux[0]
                return LP.simplify_under(ev, s3, nxt[n])
            one = lambda v: T.add(v, T.const(1, v.w))
            e_tb = T.ite(T.ult(r1, r4), tb, one(tb))
            chk.ob("R3", "counter time_backwards|+1 iff second reading <= first", nxt_of(tb) is e_tb, "update %s" % T.show(nxt_of(tb), 4), where=where)
            e_cm = T.ite(T.eqz(T.srem(d32, T.const(100, 32))), one(cm), cm)
            chk.ob("R3", "counter count_mod|+1 iff delta % 100 == 0", nxt_of(cm) is e_cm, "update %s" % T.show(nxt_of(cm), 4), where=where)
            ncs = nxt_of(cs)
            okcs = ncs.op == "ite" and {ncs.args[1], ncs.args[2]} == {cs, one(cs)}
            chk.ob("R3", "counter count_stuck|+1 exactly when the stuck test fires", okcs, "update %s" % T.show(ncs, 3), where=where)
            nds = nxt_of(ds)
            inc = T.sub(nds, ds)
            # the variable that remembers the previous probe's delta: the 32-bit loop variable whose next value is this probe's delta
            prev = [t for n, wh, init, t, rng in rec.vars if isinstance(t, T.T) and t.w == 32 and isinstance(nxt.get(n), T.T)
                    and LP.simplify_under(ev, s3, nxt[n]) is d32]
            okds = False
            a64 = T.sext(d32, 64)
            for p_ in prev:
                b64 = T.sext(p_, 64)
                if inc is T.uabs(T.sub(a64, b64)) or inc is T.uabs(T.sub(b64, a64)):
                    okds = True
            chk.ob("R3", "delta_sum|+= |delta - previous delta|, the exact (64-bit) difference of the two 32-bit deltas", okds,
                   "increment %s; variable(s) holding the previous delta: %s" % (T.show(inc, 2), [T.show(x, 1) for x in prev][:3]), where=where)
    # ---- R1: interval of the Ok value
    s_ok = st.fork()
    s_ok.assume = ()
    add_assume(s_ok, T.eqz(ret.discr))
    lo, hi = P.arange(ev, s_ok, r)
    chk.ob("R1", "Ok(r)|1 <= r <= 128", 1 <= lo and hi <= 128, "interval of the Ok value under the Ok path condition: [%d, %d]" % (lo, hi), where=where,
           sample={"ok_value": T.show(r, 4), "interval": [lo, hi]})
    # ---- R2: sufficiency
    mean = T.udiv(ds, T.const(TESTLOOP, 64))
    okb = r.op == "ite" and r.args[0] is T.ult(mean, T.const(16, 64))
    swapped = r.op == "ite" and r.args[0] is T.ult(T.const(15, 64), mean)  # `match mean { 0..=15 => table, _ => formula }`
    okb = okb or swapped
    chk.ob("R2", "Ok(r)|table for mean < 16, formula otherwise", okb, "value %s" % T.show(r, 4), where=where)
    if okb:
        tab, form = (r.args[2], r.args[1]) if swapped else (r.args[1], r.args[2])
        oktab = tab.op == "select" and tab.args[0].op == "arrlit" and tab.args[1] is mean and len(tab.args[0].args) == 16
        chk.ob("R2", "table branch|lookup at the mean in a 16-entry constant table", oktab, T.show(tab, 3), where=where)
        if oktab:
            mlo, mhi = P.arange(ev, s_ok, mean)
            elems = [e.aux for e in tab.args[0].args]
            chk.ob("R2", "table branch|feasible mean is at least 2", mlo >= 2, "feasible means [%d, %d]" % (mlo, mhi), where=where)
            for i in range(max(mlo, 0), 16):
                e = elems[i]
                okk = e >= 1 and e * bitlen(i) >= 128 and e <= 128
                chk.ob("R2", "table[%d] = %d|>= 1 and %d * bitlen(%d) >= 128" % (i, e, e, i), okk, "%d * %d = %d" % (e, bitlen(i), e * bitlen(i)), where=where,
                       nontrivial=True)
        l = T.sub(T.const(64, 32), T.lz(mean))
        eform = T.trunc(T.udiv(T.add(T.const(127, 32), l), l), 8)
        chk.ob("R2", "formula branch|r = (127 + l) / l with l = 64 - leading_zeros(mean)", form is eform,
               "found %s expected %s" % (T.show(form, 4), T.show(eform, 4)), where=where)
        # ceil(128/l) * l >= 128 for l in 5..64 (mean >= 16)
        okf = all(((127 + l_) // l_) * l_ >= 128 and 1 <= (127 + l_) // l_ <= 128 for l_ in range(5, 65))
        chk.ob("R2", "formula branch|ceil(128/l)*l >= 128 for every l in 5..=64", okf, "", nontrivial=False)
    # ---- R5: set_rounds
    sdef = sq.find_method(crate, "rand_jitter::JitterRng::<F>::set_rounds", "JitterRng", "set_rounds")
    skey = next((k for k in crate.bodies if crate.bodies[k]["def"] == sdef), None)
    if skey is None:
        chk.ob("R5", "set_rounds|anchor", False, "set_rounds not found")
    else:
        ev2 = crate.evaluator()
        st2 = State()
        a2, o2 = symbolic_args(ev2, st2, crate.bodies[skey])
        ev2.call_body(st2, skey, a2)
        rounds = a2[1]
        okp = len(ev2.panics) == 1
        if okp:
            sp = st2.fork()
            sp.assume = tuple(ev2.panics[0]["assume"])
            okp = P.arange(ev2, sp, rounds) == (0, 0) and len(sp.assume) == 1
        chk.ob("R5", "set_rounds|panics exactly when rounds == 0", okp, "panic paths: %s" % [[T.show(x, 2) for x in p["assume"]] for p in ev2.panics],
               where=crate.bodies[skey]["span"][0])
        selfv = st2.objs[a2[0].obj]
        okw = isinstance(selfv, Struct) and rounds in selfv.fields
        chk.ob("R5", "set_rounds|stores the value", okw, "", nontrivial=False)
    chk.trusted_base = TRUSTED
