"""C09 - all seeding routes agree: seed_from_u64, from_rng and try_from_rng."""
from .. import terms as T, sq, alg
from ..harness import (Crate, State, Ref, ArrV, Struct, EnumV, OpaqueV, flat_leaves, Anchor, Unsupported, SymbolicLoop, Diverged,
                       symbolic_args, same_value, synth_call, ref_ty, ty_id)
from ..ref import xoshiro as REF, isaac as IREF
from .linear import Gen, RNGCORE, SEEDABLE
from .c01 import eval_from_seed
from .c08_loops import check_redraw_loops

RULE = ("(R1) xoshiro family: seed_from_u64(x), value-numbered with rand_core's from_rng / fill_bytes_via_next inlined for the constant seed "
        "length, must equal from_seed applied to the little-endian bytes of the reference SplitMix64 stream started at x; (R2) XorShiftRng, "
        "Hc128Rng, Hc128Core do not override seed_from_u64, and Hc128Rng / IsaacRng / Isaac64Rng constructors are the BlockRng constructors "
        "wrapped unchanged; (R3) ISAAC seed_from_u64: key words x_lo, x_hi (x for ISAAC-64), zeros elsewhere, one pass; (R4) sibling agreement "
        "of the ISAAC from_rng / try_from_rng bodies (same byte count, same word decode, init(seed, 2)); (R5) on failure try_from_rng returns "
        "the source's error and constructs nothing; (R6,R7) XorShiftRng redraw loops")
EXPLANATION = ("What the repository contributes to each route is decided; rand_core's PCG32 expansion and default from_rng/try_from_rng bodies "
               "are the dependency's documented behaviour (the default from_rng is additionally followed when value-numbering R1).")


def check_xoshiro(chk, crate, ident, ref):
    g = Gen(crate, ident)
    key = g.method(SEEDABLE, "seed_from_u64")
    body = crate.body(key)
    chk.body(key)
    ev = crate.evaluator(max_steps=2000000)
    ev.no_inline.add(key)  # the nested zero-seed replacement (Self::seed_from_u64(0)) stays a call
    st = State()
    x = T.sym("x", 64)
    try:
        got = ev.call_body(st, key, [x])
    except (Unsupported, SymbolicLoop, Diverged) as e:
        chk.ob("R1", "%s::seed_from_u64" % ident, False, "not established: %s" % e, where=body["span"][0])
        return
    # reference: bytes of the SplitMix64 stream started at x
    nbytes = ref["w"] * ref["n"] // 8
    state = x
    bs = []
    while len(bs) < nbytes:
        state, out = REF.splitmix64_next_u64(state)
        bs.extend(T.byte_of(out, i) for i in range(8))
    bs = bs[:nbytes]
    fkey = g.method(SEEDABLE, "from_seed")
    ev2 = crate.evaluator()
    ev2.no_inline.add(key)
    st2 = State()
    seed = ArrV(nbytes, 8, None, None, {i: b for i, b in enumerate(bs)})
    exp = ev2.call_body(st2, fkey, [seed])
    ok = same_value(got, exp)
    chk.ob("R1", "%s::seed_from_u64|= from_seed(first %d bytes of the SplitMix64 stream started at x)" % (ident, nbytes), ok,
           "" if ok else "found %s" % [T.show(v, 2) if isinstance(v, T.T) else v for v in flat_leaves(got)[:2]], where=body["span"][0],
           sample={"type": ident, "seed_bytes": nbytes, "first_word": T.show(flat_leaves(got)[0], 2)} if ident in ("Xoshiro256PlusPlus", "Xoroshiro64Star") else None)


def check_not_overridden(chk, crate, path, ident, meths):
    ims = crate.impls_of(path, SEEDABLE)
    ok = len(ims) == 1 and all(m in ims[0]["inherited"] for m in meths)
    chk.ob("R2", "%s|%s inherited from rand_core" % (ident, ", ".join(meths)), ok,
           "SeedableRng impl defines %s" % (sorted(ims[0]["methods"]) if ims else None), nontrivial=False)


def check_wrapper(chk, crate, ident, blk, meths):
    """wrapper constructors are BlockRng constructors wrapped unchanged"""
    g = Gen(crate, ident)
    for m in meths:
        key = g.method(SEEDABLE, m)
        body = crate.body(key)
        chk.body(key)
        ev = crate.evaluator()
        tdef = "<rand_core::block::%s<R> as rand_core::SeedableRng>::%s" % (blk, m)
        ev.no_inline.add(tdef)
        st = State()
        args, objs = symbolic_args(ev, st, body)
        try:
            ret = ev.call_body(st, key, args)
        except (Unsupported, SymbolicLoop, Diverged) as e:
            chk.ob("R2", "%s::%s" % (ident, m), False, "not established: %s" % e, where=body["span"][0])
            continue
        calls = [c for c in ev.calls if ("::%s<" % blk) in c[1] and c[1].split("::<")[0].endswith("::" + m)]
        ok = len(ev.calls) == 1 and len(calls) == 1
        if ok:
            call = calls[0][4]
            if m == "try_from_rng":
                # Ok exactly when the inner call is Ok (`.map(Wrapper)` keeps the discriminant, `?` + `Ok(..)` re-creates it)
                ok = isinstance(ret, EnumV) and isinstance(ret.discr, T.T) and T.eqz(ret.discr) is T.eqz(T.atom("res", 64, (call,), "ret.discr")) \
                    and 0 in ret.payloads and 1 in ret.payloads
                if ok:
                    okv = all(_from_call(l, call) for l in flat_leaves(ret.payloads[0][0])[:8])
                    oke = all(_from_call(l, call) for l in flat_leaves(Struct(ret.payloads[1]))[:2])
                    ok = okv and oke
            else:
                ok = all(_from_call(l, call) for l in flat_leaves(ret)[:8])
        chk.ob("R2", "%s::%s|is %s::<Core>::%s wrapped unchanged" % (ident, m, blk, m), ok,
               "calls %s" % [c[1][-60:] for c in ev.calls], where=body["span"][0],
               sample={"wrapper": ident, "method": m} if m == "try_from_rng" else None)


def _from_call(leaf, call):
    if isinstance(leaf, OpaqueV):
        return ("#%d" % call.id) in str(leaf.token)
    if isinstance(leaf, T.T):
        seen = 0
        x = leaf
        while seen < 6:
            if x.op in ("res", "resarr") and x.args[0] is call:
                return True
            if not x.args:
                return False
            x = x.args[0]
            seen += 1
    return False


def init_shape(crate, init_def):
    """the private initialisation helper has today's shape (256-word array, number of passes)"""
    key = next((k for k, b in crate.bodies.items() if b["def"] == init_def), None)
    if key is None:
        return False
    b = crate.bodies[key]
    tys = crate.evaluator().tys
    return b["argc"] == 2 and tys[b["locals"][1]]["k"] == "array" and tys[b["locals"][1]].get("len") == 256 and tys[b["locals"][2]]["s"] == "u32"


def core_matches(core, exp, g, w):
    """-> None if the core value is randinit's memory with a = b = c = 0"""
    from .c03 import core_fields
    iM, iA, iB, iC = core_fields(g)
    if not isinstance(core, Struct):
        return "not a core value"
    mem = core.fields[iM]
    bad = [i for i in range(256) if mem.get(i) is not exp[i]]
    if bad:
        return "memory word %d differs: %s" % (bad[0], T.diff(mem.get(bad[0]), exp[bad[0]]))
    z = T.const(0, w)
    if not all(core.fields[i] is z for i in (iA, iB, iC)):
        return "a, b, c are not all zero"
    return None


def check_isaac_whole(chk, crate, core_ident, w):
    """the routes compared whole, everything inlined, against the reference initialisation (used when the private helper between
    the routes and the state no longer has the shape the fragment rules R3/R4 take apart)"""
    g = Gen(crate, core_ident)
    zero = T.const(0, w)
    # seed_from_u64
    key = g.method(SEEDABLE, "seed_from_u64")
    body = crate.body(key)
    chk.body(key)
    x = T.sym("x", 64)
    try:
        r = crate.evaluator(max_steps=4000000).call_body(State(), key, [x])
        kw = [T.trunc(x, 32), T.trunc(T.lshr(x, 32), 32)] if w == 32 else [x]
        msg = core_matches(r, IREF.randinit(kw + [zero] * (256 - len(kw)), w, 1), g, w)
    except (Unsupported, SymbolicLoop, Diverged) as e:
        msg = "not established: %s" % e
    chk.ob("R3", "%s::seed_from_u64|state = one initialisation pass on (x, 0, ...), whole route" % core_ident, msg is None, msg or "",
           where=body["span"][0], sample={"core": core_ident, "route": "seed_from_u64"})
    # from_seed
    key = g.method(SEEDABLE, "from_seed")
    body = crate.body(key)
    chk.body(key)
    try:
        ev = crate.evaluator(max_steps=4000000)
        leaves = []
        seed = ev.symbolic(body["locals"][1], "seed", leaves)
        r = ev.call_body(State(), key, [seed])
        words = REF.le_words(leaves, w)
        msg = core_matches(r, IREF.randinit(words + [zero] * (256 - len(words)), w, 2), g, w)
    except (Unsupported, SymbolicLoop, Diverged) as e:
        msg = "not established: %s" % e
    chk.ob("R3", "%s::from_seed|state = two passes on the little-endian seed words zero-extended, whole route" % core_ident, msg is None,
           msg or "", where=body["span"][0])
    # from_rng / try_from_rng
    nbytes = 256 * w // 8
    for m in ("from_rng", "try_from_rng"):
        key = g.method(SEEDABLE, m)
        body = crate.body(key)
        chk.body(key)
        ev = crate.evaluator(max_steps=6000000)
        st = State()
        try:
            args, objs = symbolic_args(ev, st, body)
            ret = ev.call_body(st, key, args)
        except (Unsupported, SymbolicLoop, Diverged) as e:
            chk.ob("R4", "%s::%s" % (core_ident, m), False, "not established: %s" % e, where=body["span"][0])
            continue
        fills = [c for c in ev.calls if c[1].split("::")[-1] in ("fill_bytes", "try_fill_bytes")]
        msg = None if len(fills) == 1 and len(ev.calls) == 1 else "calls on the source: %s" % [c[1].split("::")[-1] for c in ev.calls]
        core = ret
        if msg is None and m == "try_from_rng":
            call = fills[0][4]
            d = T.atom("res", 64, (call,), "ret.discr")
            ok5 = isinstance(ret, EnumV) and isinstance(ret.discr, T.T) and T.eqz(ret.discr) is T.eqz(d) and 1 in ret.payloads \
                and 0 in ret.payloads and _from_call(ret.payloads[1][0], call)
            chk.ob("R5", "%s::try_from_rng|Ok iff the source succeeded; Err carries the source's error" % core_ident, ok5, "", where=body["span"][0])
            core = ret.payloads[0][0] if ok5 else None
        if msg is None and core is not None:
            call = fills[0][4]
            words = T.atom("le_words", w, (T.atom("effbytes", 8, (call,), (1, nbytes)),), w)
            byts = [T.select(T.atom("effarr", 8, (call,), (1, nbytes)), T.const(j, 64), 8) for j in range(nbytes)]
            cands = [[T.select(words, T.const(i, 64), w) for i in range(256)], REF.le_words(byts, w)]
            msgs = [core_matches(core, IREF.randinit(c, w, 2), g, w) for c in cands]
            msg = None if None in msgs else msgs[0]
        chk.ob("R4", "%s::%s|one fill of %d bytes; state = two passes on its little-endian %d-bit words, whole route" % (core_ident, m, nbytes, w),
               msg is None, msg or "", where=body["span"][0], sample={"core": core_ident, "route": m, "bytes": nbytes})


def check_isaac(chk, crate, core_ident, w, init_def):
    init_def = sq.find_fn(crate, init_def, r"fn\(.*\) -> .*", scope=init_def.rsplit("::", 1)[0]) if any(
        b["def"] == init_def for b in crate.bodies.values()) else sq.find_fn(crate, init_def, r"fn\(\[.*; \w+\], u32\) -> .*", scope=init_def.rsplit("::", 1)[0])
    if not init_shape(crate, init_def):
        return check_isaac_whole(chk, crate, core_ident, w)
    init_name = "::" + init_def.split("::")[-1]
    g = Gen(crate, core_ident)
    n = 256
    # ---- R3 seed_from_u64
    key = g.method(SEEDABLE, "seed_from_u64")
    body = crate.body(key)
    chk.body(key)
    ev = crate.evaluator()
    ev.no_inline.add(init_def)
    st = State()
    x = T.sym("x", 64)
    ret = ev.call_body(st, key, [x])
    inits = [c for c in ev.calls if c[1].endswith(init_name)]
    ok = len(inits) == 1
    if ok:
        arr, rounds = inits[0][5][0], inits[0][5][1]
        zero = T.const(0, w)
        if w == 32:
            exp = [T.trunc(x, 32), T.trunc(T.lshr(x, 32), 32)] + [zero] * (n - 2)
        else:
            exp = [x] + [zero] * (n - 1)
        fill = T.atom("arrfill", w, (zero,), n)
        items = tuple((i, v) for i, v in enumerate(exp) if v is not zero)
        expt = T.arr_overlay(fill, items)
        ok = len(arr) == 1 and (arr[0] is expt or arr[0] is T.arr_lit(tuple(exp))) and rounds == (T.const(1, 32),)
    chk.ob("R3", "%s::seed_from_u64|key = x in the first word(s), zeros elsewhere, one initialisation pass" % core_ident, ok,
           "init calls: %d" % len(inits), where=body["span"][0], sample={"core": core_ident, "route": "seed_from_u64"})
    # ---- from_seed: LE words zero-extended, two passes
    ev, st, seedb, r, body2, key2 = eval_from_seed(g)
    ev = crate.evaluator()
    ev.no_inline.add(init_def)
    st = State()
    leaves = []
    seed = ev.symbolic(body2["locals"][1], "seed", leaves)
    ev.call_body(st, key2, [seed])
    inits = [c for c in ev.calls if c[1].endswith(init_name)]
    ok = len(inits) == 1
    if ok:
        arr, rounds = inits[0][5][0], inits[0][5][1]
        words = REF.le_words(leaves, w)
        zero = T.const(0, w)
        exp = words + [zero] * (n - len(words))
        fill = T.atom("arrfill", w, (zero,), n)
        expt = T.arr_overlay(fill, tuple((i, v) for i, v in enumerate(exp) if v is not zero))
        ok = len(arr) == 1 and (arr[0] is expt or arr[0] is T.arr_lit(tuple(exp))) and rounds == (T.const(2, 32),)
    chk.ob("R3", "%s::from_seed|little-endian seed words zero-extended to 256 slots, two passes" % core_ident, ok, "", where=body2["span"][0])
    # ---- R4/R5 from_rng vs try_from_rng
    res = {}
    for m in ("from_rng", "try_from_rng"):
        key = g.method(SEEDABLE, m)
        body = crate.body(key)
        chk.body(key)
        ev = crate.evaluator(max_steps=2000000)
        ev.no_inline.add(init_def)
        st = State()
        args, objs = symbolic_args(ev, st, body)
        try:
            ret = ev.call_body(st, key, args)
        except (Unsupported, SymbolicLoop, Diverged) as e:
            chk.ob("R4", "%s::%s" % (core_ident, m), False, "not established: %s" % e, where=body["span"][0])
            continue
        fills = [c for c in ev.calls if c[1].split("::")[-1] in ("fill_bytes", "try_fill_bytes")]
        inits = [c for c in ev.calls if c[1].endswith(init_name)]
        res[m] = (ret, fills, inits, body, ev)
    if len(res) == 2:
        nbytes = n * w // 8
        shapes = {}
        for m, (ret, fills, inits, body, ev) in res.items():
            ok = len(fills) == 1 and len(inits) == 1
            if ok:
                call = fills[0][4]
                eff = T.atom("effbytes", 8, (call,), (1, nbytes))
                words = T.atom("le_words", w, (eff,), w)
                arr, rounds = inits[0][5][0], inits[0][5][1]
                elementwise = T.arr_lit(tuple(T.select(words, T.const(i, 64), w) for i in range(n)))
                # the same words when the destination is a byte array that is decoded explicitly (from_le_bytes on chunks)
                bw = w // 8
                byts = [T.select(T.atom("effarr", 8, (call,), (1, nbytes)), T.const(j, 64), 8) for j in range(nbytes)]
                explicit = T.arr_lit(tuple(REF.le_words(byts, w)))
                ok = len(arr) == 1 and (arr[0] is words or arr[0] is elementwise or arr[0] is explicit) and rounds == (T.const(2, 32),)
                shapes[m] = (ok, nbytes)
            chk.ob("R4", "%s::%s|one fill of %d bytes, little-endian %d-bit words, init(seed, 2)" % (core_ident, m, nbytes, w), ok,
                   "fills %d, init calls %d" % (len(fills), len(inits)), where=body["span"][0],
                   sample={"core": core_ident, "route": m, "bytes": nbytes})
        # R5 error discipline
        ret, fills, inits, body, ev = res["try_from_rng"]
        ok5 = isinstance(ret, EnumV) and isinstance(ret.discr, T.T) and len(fills) == 1
        if ok5:
            call = fills[0][4]
            d = T.atom("res", 64, (call,), "ret.discr")
            ok5 = T.eqz(ret.discr) is T.eqz(d) and 1 in ret.payloads and _from_call(ret.payloads[1][0], call)
            okv = 0 in ret.payloads and all(_from_call(l, inits[0][4]) for l in flat_leaves(ret.payloads[0][0])[:4]) if inits else False
            ok5 = ok5 and okv
        chk.ob("R5", "%s::try_from_rng|Ok iff the source succeeded; Err carries the source's error; the generator comes from init only" % core_ident,
               ok5, "", where=body["span"][0])



TRAIT_NAMES = {"from_seed", "seed_from_u64", "from_rng", "try_from_rng", "next_u32", "next_u64", "fill_bytes", "try_next_u32",
               "try_next_u64", "try_fill_bytes"}


def check_no_shadowing(chk, crates):
    """R8: an inherent associated function wins path resolution over a trait method of the same name, so `Type::from_rng(..)`
    (also `Self::from_rng` inside the seeding macros) would silently reach it instead of the analysed trait method"""
    n = 0
    for crate in crates:
        for a in crate.facts["adts"]:
            impls = crate.impls_of(a["path"])
            if not any(im.get("trait") in (SEEDABLE, RNGCORE) for im in impls):
                continue
            n += 1
            shadow = sorted((m, k) for im in impls if im.get("trait") is None for m, k in im["methods"].items() if m in TRAIT_NAMES)
            bad = []
            for m, k in shadow:
                # harmless if it is the trait method under another path: the same value and effects on the same symbolic arguments
                tk = next((im["methods"][m] for im in impls if im.get("trait") in (SEEDABLE, RNGCORE) and m in im["methods"]), None)
                same = False
                if tk is not None and crate.bodies[k]["argc"] == crate.bodies[tk]["argc"]:
                    try:
                        outs = []
                        for key_ in (k, tk):
                            ev_ = crate.evaluator(max_steps=2000000)
                            st_ = State()
                            args_, objs_ = symbolic_args(ev_, st_, crate.bodies[tk])
                            r_ = ev_.call_body(st_, key_, args_)
                            outs.append((r_, [st_.objs[o] for o in objs_.values()], st_.world))
                        same = same_value(outs[0][0], outs[1][0]) and all(same_value(x, y) for x, y in zip(outs[0][1], outs[1][1])) \
                            and outs[0][2] is outs[1][2]
                    except (Unsupported, SymbolicLoop, Diverged, KeyError):
                        same = False
                if not same:
                    bad.append(m)
            chk.ob("R8", "%s|no inherent function shadows a SeedableRng / RngCore method (other than by forwarding to it)" % a["path"].split("::")[-1],
                   not bad, "inherent functions named %s take precedence over the trait methods in path calls and differ from them" % bad,
                   nontrivial=bool(shadow))
    return n


def run(chk, tier):
    xo = Crate("rand_xoshiro")
    chk.config(xo.config)
    cnt = 0
    for ident, ref in REF.GENERATORS.items():
        try:
            check_xoshiro(chk, xo, ident, ref)
            cnt += 1
        except Anchor as e:
            chk.ob("anchor", ident, False, str(e), nontrivial=False)
    # SplitMix64::seed_from_u64 is the identity on the counter (C08.R3); its fill_bytes is fill_bytes_via_next (C05)
    xs = Crate("rand_xorshift")
    hc = Crate("rand_hc")
    isaac = Crate("rand_isaac")
    for c in (xs, hc, isaac):
        chk.config(c.config)
    check_not_overridden(chk, xs, xs.adt_by_ident("XorShiftRng")["path"], "XorShiftRng", ["seed_from_u64"])
    check_not_overridden(chk, hc, hc.adt_by_ident("Hc128Rng")["path"], "Hc128Rng", ["seed_from_u64"])
    check_not_overridden(chk, hc, hc.adt_by_ident("Hc128Core")["path"], "Hc128Core", ["seed_from_u64", "from_rng", "try_from_rng"])
    check_wrapper(chk, hc, "Hc128Rng", "BlockRng", ["from_seed", "from_rng", "try_from_rng"])
    ngen = check_no_shadowing(chk, [xo, xs, hc, isaac])
    chk.floor("R0", "generator types examined for shadowing", ngen, 20)
    check_wrapper(chk, isaac, "IsaacRng", "BlockRng", ["from_seed", "seed_from_u64", "from_rng", "try_from_rng"])
    check_wrapper(chk, isaac, "Isaac64Rng", "BlockRng64", ["from_seed", "seed_from_u64", "from_rng", "try_from_rng"])
    check_isaac(chk, isaac, "IsaacCore", 32, "rand_isaac::isaac::IsaacCore::init")
    check_isaac(chk, isaac, "Isaac64Core", 64, "rand_isaac::isaac64::Isaac64Core::init")
    check_redraw_loops(chk, xs, Gen(xs, "XorShiftRng"), "R6", must_agree=True)
    chk.floor("R0", "xoshiro-family seed_from_u64 routes", cnt, 14)
