"""C12 - JitterRng is the Jitterentropy 2.1.0 procedure applied to its timer readings."""
from .. import terms as T, alg, sq, loops as LP
from ..harness import (Crate, State, Ref, ArrV, Struct, EnumV, OpaqueV, flat_leaves, Anchor, Unsupported, SymbolicLoop, Diverged,
                       symbolic_args, same_value, synth_call, ref_ty, ty_id)
from ..evalmir import add_assume
from ..ref import jitter as REF
from .linear import Gen, RNGCORE
from .c16 import field_index
from .c15 import body_by_def

RULE = ("each timer call is an opaque, numbered reading (world token). Fragments are value-numbered and compared, by normal-form identity, with "
        "the reference transcription vf/ref/jitter.py: lfsr (64 rounds, taps 63/60/55/30/27/22, rotl 1), random_loop_cnt(4), EcState::stuck, "
        "stir_pool; lfsr_time / memaccess / measure_jitter / gen_entropy / timer_stats / new_with_timer are compared through their call "
        "sequences, loop bounds (loop records of vf/loops.py) and state effects; the number of timer readings per fragment is the tick depth "
        "of the world token on every path")
EXPLANATION = ("Per-fragment equality with the documented procedure is decided exactly; that the fragments compose to the whole-stream "
               "statement is the paper argument of DESIGN.md section 4/C12 (the timer is the only opaque input, and every fragment's use of "
               "it is pinned).")

from .jroles import roles as jitter_roles, find_field, ec_state
J = "rand_jitter::JitterRng::<F>::"


class _Roles(dict):
    """J + name for public functions, the role table for private ones"""


ROLE = {}


_CRATE = [None]


def fn(name):
    if name in ROLE:
        return ROLE[name]
    from .. import sq
    return sq.find_method(_CRATE[0], J + name, "JitterRng", name)  # public methods may live in an impl block of another module


def counted_loops(ev, st, recs, cnts):
    """(record, counter) of every loop that runs exactly `c` times for some c in cnts: a counter from 0 with `counter < c` and
    +1 per iteration, or a counter from c with `counter > 0` and -1 per iteration"""
    out = []
    for rec in recs:
        for (cond, nxt, world, assume) in rec.conts:
            s2 = st.fork()
            s2.assume = tuple(assume)
            for n, wh, init, t, rng in rec.vars:
                if not isinstance(t, T.T) or not isinstance(nxt.get(n), T.T) or not isinstance(init, T.T):
                    continue
                nv = LP.resolve(ev, s2, nxt[n])
                up = init.op == "const" and init.aux == 0 and nv is T.add(t, T.const(1, t.w)) and \
                    any(a.op == "ult" and a.args[0] is t and any(a.args[1] is c for c in cnts) for a in assume)
                down = any(init is c for c in cnts) and nv is T.sub(t, T.const(1, t.w)) and \
                    any((a.op == "ult" and a.args[0].op == "const" and a.args[0].aux == 0 and a.args[1] is t) or a is T.bnot(T.eqz(t))
                        for a in assume)
                if up or down:
                    out.append((rec, t))
    return out


def role_seq(calls):
    """callee sequence in role names (a renamed private function keeps its role name here)"""
    back = {v.split("::")[-1]: k for k, v in ROLE.items()}
    out = []
    for c in calls:
        if c[1].startswith("log::") or c[1].startswith("<log::") or c[1].startswith("core::fmt::"):
            continue  # the logging facade and the formatting of its arguments
        if "Fn<()>" in c[1]:
            out.append("timer")
        else:
            parts = [p_ for p_ in c[1].split("::") if not p_.startswith("<")]
            last = parts[-1] if parts else c[1]
            out.append(back.get(last, last))
    return out


def ev_for(crate, opaque=()):
    ev = crate.evaluator(max_steps=3000000)
    ev.neutral_crates.add("log")  # the log facade gets formatted copies; that it cannot touch the generator is C19's (no &mut, no statics)
    ev.summarise_loops = True
    ev.unroll_limit = 100
    for d in opaque:
        ev.no_inline.add(d)
    return ev


def sig_calls(ev):
    """the calls that role_seq names (the logging facade and the formatting of its arguments left out)"""
    return [c for c in ev.calls if not (c[1].startswith("log::") or c[1].startswith("<log::") or c[1].startswith("core::fmt::"))]


def timer_calls(ev):
    return [c for c in ev.calls if "Fn<()>>::call" in c[1]]


def reading(call):
    return T.atom("res", 64, (call,), "ret")


from ..report import Suffixed as _Suffixed


def run(chk, tier):
    run_config(chk, tier, None)
    # the procedure must be the same with the optional features on (std + log): the logging macros expand to code there
    run_config(_Suffixed(chk, " [std+log]"), tier, "jitter-std")


def run_config(chk, tier, config):
    crate = Crate("rand_jitter", config) if config else Crate("rand_jitter")
    chk.config(crate.config)
    g = Gen(crate, "JitterRng")
    ROLE.clear()
    ROLE.update(jitter_roles(crate))
    _CRATE[0] = crate
    iD = find_field(g.adt, "data", "u64")
    iR = find_field(g.adt, "rounds", "u8")
    iM = find_field(g.adt, "mem_prev_index", "u16")
    try:
        iH = find_field(g.adt, "data_half_used", "bool")  # only used for the constructor's initial values; the half bookkeeping is C16's
    except Anchor:
        iH = None
    nob = 0

    # ---- lfsr
    lk = next((k for k, b in crate.bodies.items() if b["def"] == ROLE["lfsr"]), None)
    if lk is None:
        raise Anchor("lfsr not found")
    chk.body(lk)
    ev = crate.evaluator()
    st = State()
    data, time = T.sym("data", 64), T.sym("time", 64)
    r = ev.call_body(st, lk, [data, time])
    e = REF.lfsr(data, time)
    ok = r is e
    chk.ob("R1", "lfsr|64 rounds: inject bit i-1 of time, taps 63,60,55,30,27,22, rotate left 1", ok,
           "" if ok else T.diff(r, e), where=crate.bodies[lk]["span"][0], sample={"fragment": "lfsr", "normal_form": T.show(r, 2)})

    # ---- random_loop_cnt(4) (evaluated in the context of its two call sites, n_bits = 4)
    rk = body_by_def(crate, fn("random_loop_cnt"))
    chk.body(rk)
    ev = ev_for(crate)
    st = State()
    args, objs = symbolic_args(ev, st, crate.bodies[rk])
    args[1] = T.const(4, 32)
    selfv = st.objs[args[0].obj]
    r = ev.call_body(st, rk, args)
    tcs = timer_calls(ev)
    ok = len(tcs) == 1
    if ok:
        e = REF.random_loop_cnt(reading(tcs[0][4]), selfv.fields[iD], 4)
        ok = r is e
    chk.ob("R2", "random_loop_cnt(4)|one reading, xored with the pool, folded into 4 bits", ok,
           "" if ok else "found %s" % T.show(r, 3), where=crate.bodies[rk]["span"][0], sample={"fragment": "random_loop_cnt", "normal_form": T.show(r, 3)})
    pure = same_value(st.objs[args[0].obj], selfv)
    chk.ob("R2", "random_loop_cnt|does not change the generator", pure, "", nontrivial=False)
    for site_fn in ("lfsr_time", "memaccess"):
        # evaluated with random_loop_cnt opaque (private helpers in between are inlined): one call, n_bits = 4
        sk_ = body_by_def(crate, fn(site_fn))
        ev_s = ev_for(crate, opaque=[fn("random_loop_cnt")])
        st_s = State()
        args_s, _ = symbolic_args(ev_s, st_s, crate.bodies[sk_])
        try:
            ev_s.call_body(st_s, sk_, args_s)
            sites = [c for c in ev_s.calls if c[1].split("::<")[0].endswith(ROLE["random_loop_cnt"].split("::")[-1]) or c[1].endswith(ROLE["random_loop_cnt"].split("::")[-1])]
            okc = len(sites) == 1 and sites[0][5][1] == (T.const(4, 32),)
            detail = "%d call(s), n_bits %s" % (len(sites), [[T.show(x, 1) for x in c[5][1]] for c in sites])
        except (Unsupported, SymbolicLoop, Diverged) as e:
            okc, detail = False, "not established: %s" % e
        chk.ob("R2", "%s|calls random_loop_cnt once, with n_bits = 4" % site_fn, okc, detail, nontrivial=False)

    # ---- stuck
    sk = body_by_def(crate, ROLE["stuck"])
    chk.body(sk)
    ev = crate.evaluator()
    st = State()
    args, objs = symbolic_args(ev, st, crate.bodies[sk])
    ecv = st.objs[args[0].obj]
    ecadt = ec_state(crate)
    names = [f["name"] for f in ecadt["variants"][0]["fields"]]
    iL, iL2 = find_field(ecadt, "last_delta", "i32", 0, 2), find_field(ecadt, "last_delta2", "i32", 1, 2)
    cur = args[1]
    r = ev.call_body(st, sk, args)
    es, nl, nl2 = REF.stuck(ecv.fields[iL], ecv.fields[iL2], cur)
    post = st.objs[args[0].obj]
    ok = r is es and post.fields[iL] is nl and post.fields[iL2] is nl2
    chk.ob("R3", "stuck|delta == 0 or first or second difference == 0; history shifted", ok,
           "" if ok else "verdict %s; new history %s %s" % (T.show(r, 3), T.show(post.fields[iL], 2), T.show(post.fields[iL2], 2)),
           where=crate.bodies[sk]["span"][0], sample={"fragment": "stuck", "normal_form": T.show(r, 3)})

    # ---- stir_pool
    pk = body_by_def(crate, fn("stir_pool"))
    chk.body(pk)
    ev = crate.evaluator()
    st = State()
    args, objs = symbolic_args(ev, st, crate.bodies[pk])
    pre = st.objs[args[0].obj]
    ev.call_body(st, pk, args)
    post = st.objs[args[0].obj]
    e = REF.stir_pool(pre.fields[iD])
    ok = post.fields[iD] is e and all(post.fields[i] is pre.fields[i] or same_value(post.fields[i], pre.fields[i]) for i in range(len(pre.fields)) if i != iD)
    chk.ob("R4", "stir_pool|data ^= mixer(data) with the SHA-1 constants, 64 rotate-accumulate rounds", ok,
           "" if ok else T.diff(post.fields[iD], e), where=crate.bodies[pk]["span"][0], sample={"fragment": "stir_pool"})

    # ---- lfsr_time
    tk = body_by_def(crate, fn("lfsr_time"))
    chk.body(tk)
    ev = ev_for(crate)
    st = State()
    args, objs = symbolic_args(ev, st, crate.bodies[tk])
    pre = st.objs[args[0].obj]
    tm, var = args[1], args[2]
    ev.call_body(st, tk, args)
    post = st.objs[args[0].obj]
    ok = post.fields[iD] is REF.lfsr(pre.fields[iD], tm)
    chk.ob("R5", "lfsr_time|exactly one fold of `time` into the pool", ok, "" if ok else T.show(post.fields[iD], 2), where=crate.bodies[tk]["span"][0])
    recs = list(ev.loops_log)  # the loop may sit in an iterator combinator (`(0..n).fold(..)`): every loop of the evaluation
    okl = len(recs) == 1
    if okl:
        rec = recs[0]
        tcs = timer_calls(ev)
        cnt = T.ite(var, REF.random_loop_cnt(reading(tcs[0][4]), pre.fields[iD], 4), T.const(0, 32)) if tcs else None
        okl = cnt is not None and bool(counted_loops(ev, st, recs, [cnt]))
        # the throw-away loop must not touch the generator
        touched = [wh for n_, wh, init, t, rng in rec.vars if wh[0] == args[0].obj]
        okl = okl and not touched
    chk.ob("R5", "lfsr_time|throw-away loop runs random_loop_cnt(4) times iff var_rounds, on a local value only", okl,
           "loop records %d" % len(recs), where=crate.bodies[tk]["span"][0])
    okt = len(timer_calls(ev)) == 1
    chk.ob("R9", "lfsr_time|timer readings: one iff var_rounds", okt, "%d timer call sites evaluated" % len(timer_calls(ev)), nontrivial=False)

    # ---- memaccess
    mk = body_by_def(crate, fn("memaccess"))
    chk.body(mk)
    ev = ev_for(crate)
    st = State()
    args, objs = symbolic_args(ev, st, crate.bodies[mk])
    pre = st.objs[args[0].obj]
    var = args[2]
    ev.call_body(st, mk, args)
    recs = list(ev.loops_log)
    okm = len(recs) == 1
    detail = ""
    if okm:
        rec = recs[0]
        tcs = timer_calls(ev)
        rlc = REF.random_loop_cnt(reading(tcs[0][4]), pre.fields[iD], 4) if tcs else None
        cnt = T.add(T.const(128, 32), T.ite(var, rlc, T.const(0, 32))) if rlc is not None else None
        alt = T.ite(var, T.add(T.const(128, 32), rlc), T.const(128, 32)) if rlc is not None else None
        bound_ok = cnt is not None and bool(counted_loops(ev, st, recs, [cnt, alt]))
        # index update
        idx_ok = False
        init_ok = False
        for n_, wh, init, t, rng in rec.vars:
            if isinstance(init, T.T) and init is T.zext(pre.fields[iM], 64):
                init_ok = True
                for (c_, nxt, w_, assume) in rec.conts:
                    if nxt.get(n_) is REF.memaccess_index(t):
                        idx_ok = True
        okm = bound_ok and idx_ok and init_ok
        detail = "bound 128 + rlc: %s; index starts at mem_prev_index: %s; index' = (index + 31) %% 2048: %s" % (bound_ok, init_ok, idx_ok)
    chk.ob("R6", "memaccess|128 (+ random_loop_cnt(4)) iterations of index = (index + 31) % 2048; mem[index] += 1", okm, detail,
           where=crate.bodies[mk]["span"][0], sample={"fragment": "memaccess", "detail": detail})

    # ---- measure_jitter: call sequence with memaccess / lfsr_time opaque
    jk = body_by_def(crate, fn("measure_jitter"))
    chk.body(jk)
    ev = ev_for(crate, opaque=[fn("memaccess"), fn("lfsr_time")])
    st = State()
    args, objs = symbolic_args(ev, st, crate.bodies[jk])
    pre = st.objs[args[0].obj]
    ecpre = st.objs[args[1].obj]
    r = ev.call_body(st, jk, args)
    seq = role_seq(ev.calls)
    oks = seq == ["memaccess", "timer", "lfsr_time"]
    chk.ob("R7", "measure_jitter|memaccess, then one reading, then lfsr_time", oks, "sequence %s" % seq, where=crate.bodies[jk]["span"][0],
           sample={"fragment": "measure_jitter", "sequence": seq})
    if oks:
        rd = reading(sig_calls(ev)[1][4])
        iP = find_field(ecadt, "prev_time", "u64")
        delta32 = T.trunc(T.sub(rd, ecpre.fields[iP]), 32)
        lf = sig_calls(ev)[2]
        # arguments of lfsr_time: (self, time = sign-extended delta, true)
        okarg = lf[5][1] == (T.sext(delta32, 64),) and lf[5][2] == (T.TRUE,)
        mm = sig_calls(ev)[0]
        okarg = okarg and mm[5][2] == (T.TRUE,)
        chk.ob("R7", "measure_jitter|delta = low 32 bits of (reading - previous reading), folded sign-extended, variable rounds on", okarg,
               "lfsr_time args %s" % [[T.show(x, 2) for x in a] for a in lf[5][1:]], where=crate.bodies[jk]["span"][0])
        ecpost = st.objs[args[1].obj]
        es, nl, nl2 = REF.stuck(ecpre.fields[iL], ecpre.fields[iL2], delta32)
        okec = ecpost.fields[iP] is rd and ecpost.fields[iL] is nl and ecpost.fields[iL2] is nl2
        chk.ob("R7", "measure_jitter|previous reading and delta history updated", okec, "", where=crate.bodies[jk]["span"][0])
        if isinstance(r, EnumV) and isinstance(r.discr, T.T):
            okret = T.eqz(r.discr) is es  # Option<()>: None exactly when stuck
        else:
            okret = isinstance(r, T.T) and r.w == 1 and T.bnot(r) is es  # bool: false exactly when stuck ("accepted")
        chk.ob("R7", "measure_jitter|returns None (or false) exactly when the stuck test fires", okret,
               "returns %s" % (T.show(r.discr, 3) if isinstance(r, EnumV) and isinstance(r.discr, T.T) else (T.show(r, 3) if isinstance(r, T.T) else r)),
               where=crate.bodies[jk]["span"][0])
        post = st.objs[args[0].obj]
        dpost = post.fields[iD]
        okrot = dpost.op == "ite" and {dpost.args[1], dpost.args[2]} >= set() and any(
            T.rotl(x, 7) is y for x, y in ((dpost.args[1], dpost.args[2]), (dpost.args[2], dpost.args[1])))
        chk.ob("R7", "measure_jitter|accepted measurements rotate the pool left by 7, stuck ones leave it", okrot,
               "pool after: %s" % T.show(dpost, 3), where=crate.bodies[jk]["span"][0])
    # readings per measurement (everything inlined)
    ev = ev_for(crate)
    st = State()
    args, objs = symbolic_args(ev, st, crate.bodies[jk])
    w0 = st.world
    ev.call_body(st, jk, args)
    depth = LP.tick_depth(st.world, w0)
    chk.ob("R9", "measure_jitter|three timer readings on every path", depth == 3 and _max_ticks(st.world, w0) == 3,
           "min %d max %d" % (depth, _max_ticks(st.world, w0)), where=crate.bodies[jk]["span"][0])

    # ---- gen_entropy structure with measure_jitter / stir_pool opaque
    gk = body_by_def(crate, fn("gen_entropy"))
    chk.body(gk)
    ev = ev_for(crate, opaque=[fn("measure_jitter"), fn("stir_pool")])
    st = State()
    args, objs = symbolic_args(ev, st, crate.bodies[gk])
    pre = st.objs[args[0].obj]
    r = ev.call_body(st, gk, args)
    seq = role_seq(ev.calls)
    oks = len(seq) >= 4 and seq[0] == "timer" and seq[1] == "measure_jitter" and seq[-1] == "stir_pool" and seq.count("stir_pool") == 1 \
        and seq.count("timer") == 1 and all(s_ in ("timer", "measure_jitter", "stir_pool") for s_ in seq)
    chk.ob("R8", "gen_entropy|one priming reading, one discarded measurement, the rounds loop, exactly one stir_pool, nothing else", oks,
           "sequence %s" % seq, where=crate.bodies[gk]["span"][0], sample={"fragment": "gen_entropy", "sequence": seq})
    post = st.objs[args[0].obj]
    okr = r is post.fields[iD] and r.op == "res" and ROLE["stir_pool"].split("::")[-1] in str(r.args[0].aux)
    chk.ob("R8", "gen_entropy|returns the pool as left by stir_pool", okr, "returns %s" % T.show(r, 2), where=crate.bodies[gk]["span"][0])
    recs = [r_ for r_ in ev.loops_log if not r_.closed]  # the loops may live in library combinators (for_each, try_fold) inlined under gen_entropy
    def is_retry_loop(r_):
        mcs = [c for c in r_.calls if c[1].endswith(ROLE["measure_jitter"].split("::")[-1])]
        if len(mcs) != 1 or len(r_.exits) != 1:
            return False
        d = T.atom("res", 64, (mcs[0][4],), "ret.discr")
        return r_.exits[0][0] is T.bnot(T.eqz(d))
    inner = [r_ for r_ in recs if is_retry_loop(r_)]
    outer = [r_ for r_ in recs if r_ not in inner]
    okl = len(recs) == 2 and len(inner) == 1 and len(outer) == 1 and len(outer[0].exits) == 1 and outer[0].exits[0][0].op != "const"
    if not okl and len(recs) == 1:
        # the same thing as one loop: `while accepted < rounds { if measure_jitter(..) { accepted += 1 } }` -- one measurement
        # per iteration, and the counter advances exactly when that measurement was accepted
        r_ = recs[0]
        mcs = [c for c in r_.calls if c[1].endswith(ROLE["measure_jitter"].split("::")[-1])]
        if len(mcs) == 1 and len(r_.conts) == 1:
            call = mcs[0][4]
            accepted = [T.bnot(T.eqz(T.atom("res", 64, (call,), "ret.discr"))), T.atom("res", 1, (call,), "ret")]
            cond, nxt, world, assume = r_.conts[0]
            s2 = st.fork()
            s2.assume = tuple(assume)
            for n, wh, init, t, rng in r_.vars:
                if not (isinstance(init, T.T) and isinstance(t, T.T) and isinstance(nxt.get(n), T.T)):
                    continue
                nv = LP.resolve(ev, s2, nxt[n])
                if init.op == "const" and init.aux == 0 and any(a.op == "ult" and a.args[0] is t for a in assume):
                    one = T.add(t, T.const(1, t.w))
                    if any(nv is T.ite(a_, one, t) for a_ in accepted):
                        okl = True
                # counted downwards: from the number of rounds, while > 0, one less exactly when the measurement was accepted
                rname = g.adt["variants"][0]["fields"][iR]["name"]
                is_rounds = init is pre.fields[iR] or (init.op == "res" and str(init.aux).endswith("." + rname))  # (after the opaque priming call)
                if is_rounds and any((a.op == "ult" and a.args[0].op == "const" and a.args[0].aux == 0 and a.args[1] is t)
                                                   or a is T.bnot(T.eqz(t)) for a in assume):
                    less = T.sub(t, T.const(1, t.w))
                    if any(nv is T.ite(a_, less, t) for a_ in accepted):
                        okl = True
    chk.ob("R8", "gen_entropy|per round: repeat measure_jitter until it is accepted", okl, "loops: %d" % len(recs), where=crate.bodies[gk]["span"][0])
    # EcState initialisation: prev_time = priming reading, deltas 0, mem zeroed: visible in the first measure_jitter call's arguments
    if oks:
        first = sig_calls(ev)[1]
        ecsig = first[5][1]
        rd0 = reading(sig_calls(ev)[0][4])
        okec = len(ecsig) >= 3 and ecsig[0] is rd0 and ecsig[1] is T.const(0, 32) and ecsig[2] is T.const(0, 32)
        chk.ob("R8", "gen_entropy|collector state starts from the priming reading with zero delta history", okec,
               "first measurement sees %s" % [T.show(x, 2) for x in ecsig[:3]], where=crate.bodies[gk]["span"][0])

    # ---- timer_stats
    sk2 = body_by_def(crate, fn("timer_stats"))
    chk.body(sk2)
    ev = ev_for(crate, opaque=[fn("memaccess"), fn("lfsr_time")])
    st = State()
    args, objs = symbolic_args(ev, st, crate.bodies[sk2])
    var = args[1]
    r = ev.call_body(st, sk2, args)
    seq = role_seq(ev.calls)
    oks = seq == ["timer", "memaccess", "lfsr_time", "timer"]
    if oks:
        t1, t2 = reading(sig_calls(ev)[0][4]), reading(sig_calls(ev)[3][4])
        oks = r is T.sub(t2, t1) and sig_calls(ev)[1][5][2] == (var,) and sig_calls(ev)[2][5][1] == (t1,) and sig_calls(ev)[2][5][2] == (var,)
    chk.ob("R10", "timer_stats|reading, memaccess(var), lfsr_time(reading, var), reading; returns the difference", oks,
           "sequence %s, returns %s" % (seq, T.show(r, 2) if isinstance(r, T.T) else r), where=crate.bodies[sk2]["span"][0])

    # ---- new_with_timer
    nk = body_by_def(crate, fn("new_with_timer"))
    ev = crate.evaluator()
    st = State()
    args, objs = symbolic_args(ev, st, crate.bodies[nk])
    r = ev.call_body(st, nk, args)
    okn = isinstance(r, Struct) and r.fields[iD] is T.const(0, 64) and r.fields[iR] is T.const(64, 8) and r.fields[iM] is T.const(0, 16) \
        and (iH is None or r.fields[iH] is T.FALSE)
    chk.ob("R10", "new_with_timer|pool 0, 64 rounds, memory index 0, no pending half", okn, "", where=crate.bodies[nk]["span"][0], nontrivial=False)
    # ---- test_timer / gen_entropy reading counts come from the loop records of the fully inlined evaluation
    ev = ev_for(crate)
    st = State()
    args, objs = symbolic_args(ev, st, crate.bodies[gk])
    ev.call_body(st, gk, args)
    recs = [r_ for r_ in ev.loops_log if not r_.closed]  # the loops may live in library combinators (for_each, try_fold) inlined under gen_entropy
    per = sorted(r_.min_ticks for r_ in recs)
    chk.ob("R9", "gen_entropy|each repetition of a measurement reads the timer three times", 3 in per, "ticks per loop iteration: %s" % per,
           where=crate.bodies[gk]["span"][0])
    chk.floor("R0", "fragments", len(chk.obs), 20)  # 25 on the reference tree; vacuity guard


def _max_ticks(w, base):
    d = 0
    seen = 0
    while w is not base and seen < 100000:
        seen += 1
        if w.op == "tick":
            d += 1
            w = w.args[0]
        elif w.op == "ite":
            return d + max(_max_ticks(w.args[1], base), _max_ticks(w.args[2], base))
        else:
            return d
    return d
