"""C11 - serde snapshot restores a generator with the identical future."""
import re
from .. import terms as T, prims as P, sq
from ..harness import (Crate, State, Ref, ArrV, Struct, EnumV, OpaqueV, flat_leaves, Anchor, Unsupported, SymbolicLoop, Diverged,
                       symbolic_args, same_value)

RULE = ("from the serde configuration's facts: (R1) the derive-generated serialize body, value-numbered on a symbolic self with an opaque "
        "serializer, passes every leaf of self exactly once, in declaration order, to serialize_field / serialize_newtype_struct / the "
        "isaac_array_serde wrapper, announces the declared field count, and leaves self unchanged (R5); (R2) the generated visit_seq builds the "
        "value from one next_element result per field, in the same order, nothing from a default or constant; visit_map has one next_value and "
        "one missing_field site per field; (R3) isaac_array_serde::serialize and ::deserialize agree: tuple length = array length = 256, "
        "element i written i-th and read into slot i; (R4) the feature wiring compiles (BlockRng<..>: Serialize); (R6) every generated body that "
        "obtains a field other than by next_element::<FieldTy> (the newtype visitor, the wrappers emitted for #[serde(with/deserialize_with)]) "
        "returns exactly the unmodified Ok payload of one call on the deserializer, crate-local functions on the way inlined; (R7) every "
        "generated __SerializeWith wrapper, value-numbered, writes each element of its field once and in order")
EXPLANATION = ("Field-complete writer, field-complete reader, and writer/reader agreement of the hand-written array (de)serializer are decided "
               "from the code the derive generated for this tree. serde_derive's semantics for the attributes, rand_core's own derives for "
               "BlockRng/BlockRng64 and the wire format's round-tripping of integers and tuples are the dependency's.")

SERDE_CRATES = {"rand_xoshiro": None, "rand_xorshift": ["XorShiftRng"], "rand_isaac": ["IsaacRng", "Isaac64Rng", "IsaacCore", "Isaac64Core", "IsaacArray"]}


def meth(path):
    """method name of a call path: strips trailing generic arguments"""
    p = path
    while p.endswith(">"):
        depth = 0
        i = len(p) - 1
        while i >= 0:
            if p[i] == ">":
                depth += 1
            elif p[i] == "<":
                depth -= 1
                if depth == 0:
                    break
            i -= 1
        if i >= 2 and p[i - 2:i] == "::":
            p = p[:i - 2]
        else:
            break
    return p.split("::")[-1]


def is_ser(tr):
    return bool(tr) and tr.endswith("_serde::Serialize")


def is_de(tr):
    return bool(tr) and tr.endswith("_serde::Deserialize")


def leaf_names(ev, st, v):
    return P.sym_names(ev, st, v)


def field_of(name):
    # "self.x", "self[3]", "self.mem", "self.results[5]" -> top-level field name ("" for a newtype's single field)
    n = name[4:] if name.startswith("self") else name
    n = n.lstrip(".")
    return re.split(r"[\[.]", n)[0]


def check_serialize(chk, crate, adt, im):
    ident = adt["path"].split("::")[-1]
    key = im["methods"]["serialize"]
    body = crate.body(key)
    chk.body(key)
    tyid = crate.ty_of_adt(adt["path"])
    ev = crate.evaluator()
    st = State()
    leaves = []
    v = ev.symbolic(tyid, "self", leaves)
    oid = st.alloc(v, "self")
    ser = OpaqueV(None, "serializer")
    try:
        ev.call_body(st, key, [Ref(oid, ()), ser])
    except (Unsupported, SymbolicLoop, Diverged) as e:
        chk.ob("R1", "%s::serialize" % ident, False, "not established: %s" % e, where=body["span"][0])
        return
    fields = [f["name"] for f in adt["variants"][0]["fields"]]
    written = []
    announced = None
    for caller, name, span, why, call, argsigs in ev.calls:
        short = meth(name)
        if short in ("serialize_struct", "serialize_tuple_struct"):
            # last scalar argument is the announced length
            consts = [a for a in call.args if a.op == "const" and a.w == 64]
            announced = consts[-1].aux if consts else None
        if short in ("serialize_field", "serialize_newtype_struct", "serialize_element", "serialize_entry"):
            names = set()
            for a in argsigs[-1]:  # the value argument
                T.atoms_of(a, names)
            fs = sorted({field_of(str(n).replace("opaque:", "")) for n in names if str(n).replace("opaque:", "").startswith("self")})
            written.append((short, fs))
    flat = [f for _, fs in written for f in fs]
    if len(fields) == 1:
        allnames = set()
        sig = []
        P.value_sig(ev, st, v, sig)
        for a in sig:
            T.atoms_of(a, allnames)
        want = sorted({field_of(str(n).replace("opaque:", "")) for n in allnames if str(n).replace("opaque:", "").startswith("self")})
        ok = len(written) == 1 and written[0][1] == want
        detail = "newtype: written %s, all leaves %s" % (written, want)
    else:
        ok = [fs for _, fs in written] == [[f] for f in fields]
        detail = "fields written in order %s, declared %s" % ([fs for _, fs in written], fields)
        if announced is not None and announced != len(fields):
            ok = False
            detail += "; announced length %s" % announced
    chk.ob("R1", "%s::serialize|every field written once, in declaration order" % ident, ok, detail, where=body["span"][0],
           sample={"type": ident, "writer_calls": [(s, f) for s, f in written], "announced_len": announced})
    pure = same_value(st.objs[oid], v)
    chk.ob("R5", "%s::serialize|does not modify the generator" % ident, pure, "", nontrivial=False)


def visitor_bodies(crate, adt):
    pat = "Deserialize<'de> for %s" % adt["path"]
    out = {}
    for key, b in crate.bodies.items():
        if pat in key and "__Visitor" in key and b["kind"] == "AssocFn":
            m = b["def"].split("::")[-1]
            if m in ("visit_seq", "visit_map", "visit_newtype_struct"):
                out[m] = key
    return out


def origin(v):
    """the opaque call a leaf comes from"""
    seen = 0
    while isinstance(v, T.T) and seen < 6:
        if v.op == "res":
            return v.args[0]
        if v.op == "select" and v.args[0].op in ("resarr",):
            return v.args[0].args[0]
        if v.op == "arrlit" or v.op == "overlay":
            return None
        if not v.args:
            return None
        v = v.args[0]
        seen += 1
    return None


def leaf_origins(val):
    outs = []
    for l in flat_leaves(val):
        if isinstance(l, T.T):
            outs.append(origin(l))
        elif isinstance(l, OpaqueV):
            m = re.search(r"#(\d+)$", str(l.token))
            outs.append(("opaque", l.token))
        else:
            outs.append(None)
    return outs


def check_deserialize(chk, crate, adt):
    ident = adt["path"].split("::")[-1]
    fields = adt["variants"][0]["fields"]
    vb = visitor_bodies(crate, adt)
    if len(fields) == 1:
        want = "visit_newtype_struct"
    else:
        want = "visit_seq"
    if want not in vb and "visit_seq" not in vb:
        chk.ob("R2", "%s|derived visitor" % ident, False, "no %s body found (visitor bodies: %s)" % (want, sorted(vb)))
        return
    # ---- visit_seq: one next_element per field, in order, result used for that field
    key = vb.get("visit_seq")
    if key:
        body = crate.body(key)
        chk.body(key)
        ev = crate.evaluator()
        st = State()
        args, objs = symbolic_args(ev, st, body)
        try:
            ret = ev.call_body(st, key, args)
        except (Unsupported, SymbolicLoop, Diverged) as e:
            chk.ob("R2", "%s::visit_seq" % ident, False, "not established: %s" % e, where=body["span"][0])
            ret = None
        if ret is not None:
            calls = [c for c in ev.calls if meth(c[1]) == "next_element"]
            okv = isinstance(ret, EnumV) and 0 in ret.payloads
            val = ret.payloads[0][0] if okv else None
            per_field = []
            if okv:
                fv = val.fields if (isinstance(val, Struct) and len(fields) > 1) else [val]
                if len(fv) != len(fields):
                    okv = False
                else:
                    order = {c[4].id: i for i, c in enumerate(calls)}
                    for f, x in zip(fields, fv):
                        os_ = set()
                        for l in flat_leaves(x):
                            o = origin(l) if isinstance(l, T.T) else None
                            if o is None and isinstance(l, OpaqueV):
                                m = re.search(r"#(\d+)$", str(l.token))
                                os_.add(("opq", int(m.group(1))) if m else None)
                            else:
                                os_.add(("call", o.id) if o is not None else None)
                        per_field.append((f["name"], os_))
                    idxs = []
                    for name, os_ in per_field:
                        if len(os_) != 1 or None in os_:
                            okv = False
                            break
                        kind, cid = list(os_)[0]
                        if cid not in order:
                            okv = False
                            break
                        idxs.append(order[cid])
                    if okv:
                        okv = idxs == list(range(len(fields))) and len(calls) == len(fields)
            chk.ob("R2", "%s::visit_seq|field i is the i-th next_element result; nothing defaulted" % ident, okv,
                   "next_element calls: %d, fields: %d, origins: %s" % (len(calls), len(fields), [(n, len(o)) for n, o in per_field]),
                   where=body["span"][0], sample={"type": ident, "next_element_calls": len(calls), "fields": [f["name"] for f in fields]})
            nlen = sum(1 for c in ev.calls if meth(c[1]) == "invalid_length")
            chk.ob("R2", "%s::visit_seq|a missing element is an error" % ident, nlen == len(fields), "%d invalid_length sites for %d fields" % (nlen, len(fields)),
                   nontrivial=False)
    # ---- visit_map: structural counts
    key = vb.get("visit_map")
    if key:
        body = crate.body(key)
        chk.body(key)
        names = [(t[1].get("rpath") or t[1].get("path") or "") for _, t in sq.iter_calls(body)]
        nv = sum(1 for n in names if meth(n) == "next_value" and "IgnoredAny" not in n)
        nm = sum(1 for n in names if "missing_field" in n)
        nd = sum(1 for n in names if "duplicate_field" in n)
        okm = nv == len(fields) and nm == len(fields) and nd == len(fields)
        chk.ob("R2", "%s::visit_map|one next_value, missing_field and duplicate_field site per field" % ident, okm,
               "next_value %d, missing_field %d, duplicate_field %d, fields %d" % (nv, nm, nd, len(fields)), where=body["span"][0])




def writer_order(ev):
    """what a value-numbered array writer did: announced tuple length, the array index(es) each serialize_element call passed, ..."""
    seq = [(meth(c[1]), c[4]) for c in ev.calls]
    tup = [c for n, c in seq if n == "serialize_tuple"]
    l1 = None
    if tup:
        cs = [a for a in tup[0].args if a.op == "const" and a.w == 64]
        l1 = cs[-1].aux if cs else None
    elems = [c for n, c in seq if n == "serialize_element"]
    order = []
    elemsigs = [c[5][-1] for c in ev.calls if meth(c[1]) == "serialize_element"]
    for sg in elemsigs:
        names = set()
        for a in sg:
            T.atoms_of(a, names)
        idx = sorted(int(m.group(1)) for n in names for m in [re.search(r"\[(\d+)\]$", str(n))] if m)
        if not idx:
            idx = sorted(a.args[1].aux for a in sg if a.op == "select" and a.args[1].op == "const" and a.args[0].op == "arr")
        order.append(idx)
    return l1, order, elems, seq


def sym_with_refs(ev, st, tyid, name):
    """symbolic value of a type, references materialised (serde_derive's wrappers hold `(&field,)`)"""
    t = ev.tys[tyid]
    if t["k"] in ("ref", "ptr"):
        inner = sym_with_refs(ev, st, t["to"], name + ".*")
        return Ref(st.alloc(inner, name), (), None, t["mut"])
    if t["k"] == "tuple":
        return Struct([sym_with_refs(ev, st, e, "%s.%d" % (name, i)) for i, e in enumerate(t["elems"])])
    if t["k"] == "adt" and t.get("adt_kind") == "struct":
        fs = t["variants"][0]["fields"]
        if len(fs) == 1:
            return sym_with_refs(ev, st, fs[0]["ty"], name)
        return Struct([sym_with_refs(ev, st, f["ty"], "%s.%s" % (name, f["name"])) for f in fs])
    return ev.symbolic(tyid, name, [], big_arrays_as_terms=False)


def check_serialize_wrappers(chk, crate, adt):
    """R7: the wrappers serde_derive emits for #[serde(with / serialize_with)] write the field they hold completely"""
    ident = adt["path"].split("::")[-1]
    pat = "Serialize for %s" % adt["path"]
    n = 0
    for key, b in sorted(crate.bodies.items()):
        if pat not in key or "__SerializeWith" not in key or b["kind"] != "AssocFn" or b["krate"] != crate.name:
            continue
        inst = "%s::with-wrapper in serialize" % ident
        chk.body(key)
        where = b["span"][0]
        ev = crate.evaluator(max_steps=3000000)
        st = State()
        try:
            selfty = ev.tys[b["locals"][1]]["to"]
            v = sym_with_refs(ev, st, selfty, "w")
            oid = st.alloc(v, "w")
            ev.call_body(st, key, [Ref(oid, ()), OpaqueV(None, "serializer")])
        except (Unsupported, SymbolicLoop, Diverged, KeyError) as e:
            chk.ob("R7", inst + "|field written", False, "not established: %s" % e, where=where)
            continue
        n += 1
        l1, order, elems, seq = writer_order(ev)
        nel = len(elems)
        ok = l1 == nel and nel > 0 and order == [[i] for i in range(nel)] and any(m == "end" for m, _ in seq)
        arrs = [o for o in st.objs.values() if isinstance(o, ArrV)]
        ok = ok and any(a.n == nel for a in arrs)
        chk.ob("R7", inst + "|announces the field's length, writes element i i-th, ends", ok,
               "serialize_tuple(%s), %d serialize_element calls, first %s" % (l1, nel, order[:3]), where=where,
               sample={"type": ident, "elements": nel})
    return n


def ok_payload_type(ev, body):
    """type of the Ok payload of a body returning Result<T, E>"""
    t = ev.tys[body["locals"][0]]
    if t["k"] != "adt" or t.get("adt_kind") != "enum" or not t["variants"] or not t["variants"][0]["fields"]:
        return None
    return t["variants"][0]["fields"][0]["ty"]


def check_value_paths(chk, crate, adt):
    """R6: every derive-generated body that obtains a field value other than by next_element::<FieldTy> - the wrappers serde_derive
    emits for #[serde(with / deserialize_with)] and the newtype visitor - must return, on the Ok path, exactly the unmodified Ok
    payload of one call on the deserializer (crate-local functions on the way are inlined, so a function that adjusts the value
    after reading it shows up as a difference)."""
    ident = adt["path"].split("::")[-1]
    pat = "Deserialize<'de> for %s" % adt["path"]
    n = 0
    for key, b in sorted(crate.bodies.items()):
        if pat not in key or b["kind"] != "AssocFn" or b["krate"] != crate.name:
            continue
        last = b["def"].split("::")[-1]
        wrapper = "__DeserializeWith" in key and last == "deserialize"
        if not (wrapper or last == "visit_newtype_struct"):
            continue
        inst = "%s::%s" % (ident, "visit_newtype_struct" if not wrapper else ("with-wrapper in " + ("visit_seq" if "visit_seq::__DeserializeWith" in key else "visit_map")))
        chk.body(key)
        where = b["span"][0]
        ev = crate.evaluator(max_steps=3000000)
        st = State()
        try:
            args, objs = symbolic_args(ev, st, b)
            ret = ev.call_body(st, key, args)
        except (Unsupported, SymbolicLoop, Diverged) as e:
            chk.ob("R6", inst + "|value path", False, "not established: %s" % e, where=where)
            continue
        n += 1
        ok = isinstance(ret, EnumV) and 0 in ret.payloads and len(ret.payloads[0]) == 1
        detail = "does not return a Result"
        if ok:
            val = ret.payloads[0][0]
            tyid = ok_payload_type(ev, b)
            if wrapper:
                # struct __DeserializeWith { value: FieldTy, phantom, lifetime }
                t = ev.tys[tyid] if tyid is not None else None
                if isinstance(val, Struct) and t is not None and t["k"] == "adt":
                    tyid = t["variants"][0]["fields"][0]["ty"]
                    val = val.fields[0]
                else:
                    tyid = None
            hits = []
            if tyid is not None:
                for c in ev.calls:
                    exp = P.fresh_value(ev, tyid, c[4], "ret.Ok.0", 1)
                    if same_value(val, exp):
                        hits.append(meth(c[1]))
            ok = len(hits) == 1 and hits[0].startswith("deserialize")
            detail = "value is %s; calls on the way: %s" % ("the unmodified result of %s" % hits if hits else "not the unmodified result of any call",
                                                           [meth(c[1]) for c in ev.calls][:6])
        chk.ob("R6", inst + "|the field value is exactly what one deserializer call returned", ok, detail, where=where,
               sample={"type": ident, "site": inst, "calls": [meth(c[1]) for c in ev.calls][:4]})
    return n


def check_isaac_array_serde(chk, crate):
    skey = dkey = vkey = None
    for key, b in crate.bodies.items():
        if b["kind"] == "Closure" or "{closure" in key or b["krate"] != crate.name:
            continue  # closures inside the three functions are evaluated as part of them
        d = b["def"]
        last = d.split("::")[-1]
        if not d.startswith("<") and last == "serialize":
            skey = key  # the free function named in #[serde(with = "...")] (module and names around it may change)
        elif not d.startswith("<") and last == "deserialize":
            dkey = key
        elif last == "visit_seq" and "__Visitor" not in d and "_serde::de::Visitor" in d and "::_::" not in d.split(" as ")[0]:
            vkey = key  # the hand-written visitor (derive-generated ones are called __Visitor and live in `_` const blocks)
    if not (skey and dkey and vkey):
        chk.ob("R3", "isaac_array_serde|anchors", False, "serialize/deserialize/visit_seq bodies not found: %s %s %s" % (skey, dkey, vkey))
        return
    # writer
    body = crate.body(skey)
    chk.body(skey)
    ev = crate.evaluator(max_steps=3000000)
    st = State()
    args, objs = symbolic_args(ev, st, body)
    ev.call_body(st, skey, args)
    l1, order, elems, seq = writer_order(ev)
    okw = l1 == 256 and order == [[i] for i in range(256)] and any(n == "end" for n, _ in seq)
    chk.ob("R3", "isaac_array_serde::serialize|tuple(256), element i written i-th, end()", okw,
           "serialize_tuple(%s), %d serialize_element calls, in-order: %s" % (l1, len(elems), order[:3] == [[0], [1], [2]]), where=body["span"][0],
           sample={"writer_len": l1, "elements": len(elems)})
    # reader entry: deserialize_tuple(L2, visitor)
    body = crate.body(dkey)
    chk.body(dkey)
    ev = crate.evaluator()
    st = State()
    args, objs = symbolic_args(ev, st, body)
    ev.call_body(st, dkey, args)
    dt = [c[4] for c in ev.calls if meth(c[1]) == "deserialize_tuple"]
    l2 = None
    if dt:
        cs = [a for a in dt[0].args if a.op == "const" and a.w == 64]
        l2 = cs[-1].aux if cs else None
    chk.ob("R3", "isaac_array_serde::deserialize|deserialize_tuple(256)", l2 == 256, "deserialize_tuple(%s)" % l2, where=body["span"][0])
    # reader loop
    body = crate.body(vkey)
    chk.body(vkey)
    ev = crate.evaluator(max_steps=3000000)
    st = State()
    args, objs = symbolic_args(ev, st, body)
    ret = ev.call_body(st, vkey, args)
    calls = [c for c in ev.calls if meth(c[1]) == "next_element"]
    okr = isinstance(ret, EnumV) and 0 in ret.payloads
    slots = []
    if okr:
        arr = ret.payloads[0][0]
        okr = isinstance(arr, ArrV) and arr.n == 256
        if okr:
            order = {c[4].id: i for i, c in enumerate(calls)}
            for i in range(256):
                x = arr.get(i)
                o = None
                if isinstance(x, OpaqueV):
                    m = re.search(r"#(\d+)$", str(x.token))
                    o = int(m.group(1)) if m else None
                elif isinstance(x, T.T):
                    oc = origin(x)
                    o = oc.id if oc is not None else None
                slots.append(order.get(o))
            okr = slots == list(range(256)) and len(calls) == 256
    chk.ob("R3", "isaac_array_serde::visit_seq|slot i is the i-th next_element result for all 256 slots", okr,
           "next_element calls %d; first slots %s" % (len(calls), slots[:4]), where=body["span"][0],
           sample={"reader_len": len(calls), "slots_in_order": okr})
    nlen = sum(1 for c in ev.calls if meth(c[1]) == "invalid_length")
    chk.ob("R3", "isaac_array_serde::visit_seq|short input is an error at every position", nlen == 256, "%d invalid_length sites" % nlen, nontrivial=False)


def run(chk, tier):
    pairs = paths = 0
    for cname, want in SERDE_CRATES.items():
        crate = Crate(cname, "serde")
        chk.config(crate.config)
        for adt in crate.facts["adts"]:
            ident = adt["path"].split("::")[-1]
            if want is None:
                if not adt["pub"] or ident == "Seed512":
                    continue
            elif ident not in want:
                continue
            sers = [im for im in crate.impls_of(adt["path"]) if is_ser(im.get("trait"))]
            des = [im for im in crate.impls_of(adt["path"]) if is_de(im.get("trait"))]
            okp = len(sers) == 1 and len(des) == 1 and sers[0]["derived"] and des[0]["derived"]
            chk.ob("R0", "%s|derived Serialize and Deserialize" % ident, okp,
                   "Serialize impls %d, Deserialize impls %d" % (len(sers), len(des)), nontrivial=False)
            if not okp:
                continue
            pairs += 1
            try:
                check_serialize(chk, crate, adt, sers[0])
                check_deserialize(chk, crate, adt)
                paths += check_value_paths(chk, crate, adt)
                paths += check_serialize_wrappers(chk, crate, adt)
            except Anchor as e:
                chk.ob("anchor", ident, False, str(e), nontrivial=False)
        if cname == "rand_isaac":
            try:
                check_isaac_array_serde(chk, crate)
            except (Unsupported, SymbolicLoop, Diverged, Anchor) as e:
                chk.ob("R3", "isaac_array_serde", False, "not established: %s" % e)
            # R4: the feature wiring type-checks: IsaacRng's serialize hands a BlockRng<IsaacCore> to the serializer
            k = [key for key in crate.bodies if "Serialize for rand_isaac::isaac::IsaacRng>::serialize" in key]
            okw = bool(k) and any("BlockRng<rand_isaac::isaac::IsaacCore>" in (t[1].get("path") or "") for _, t in sq.iter_calls(crate.bodies[k[0]]))
            chk.ob("R4", "rand_isaac|serde feature enables rand_core/serde (BlockRng<IsaacCore>: Serialize type-checks)", okw, "", nontrivial=False)
    chk.floor("R0", "Serialize/Deserialize pairs", pairs, 21)
    chk.floor("R0", "derive-generated value paths outside next_element (newtype visitors, with-wrappers)", paths, 8)
