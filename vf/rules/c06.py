"""C06 - jump() / long_jump() equal 2^(n/2) / 2^(3n/4) steps from every state."""
from .. import terms as T, alg
from ..harness import Crate, Anchor, Unsupported, SymbolicLoop
from ..ref import xoshiro as REF
from .linear import Gen, RNGCORE, step_matrix
from .c07 import engine_of, min_poly, TRUSTED

RULE = ("for each jump/long_jump body: value numbering (constant loops unrolled) must give a post-state that is GF(2)-linear "
        "in the pre-state with matrix M (R1); with T the step matrix of the same type and chi its primitive characteristic "
        "polynomial, solve M*v = p(T)*v on a cyclic vector, verify M*T^i*v = T^i*M*v on the whole Krylov basis (so M = p(T)), "
        "and require p = x^(2^(n/2)) resp. x^(2^(3n/4)) mod chi (R2)")

JUMP_TYPES = [k for k, v in REF.GENERATORS.items() if v["n"] * v["w"] >= 128]


def words(p, w, k):
    return [(p >> (w * i)) & ((1 << w) - 1) for i in range(k)]


def run(chk, tier):
    crate = Crate("rand_xoshiro")
    chk.config(crate.config)
    cnt = 0
    for ident in JUMP_TYPES:
        ref = REF.GENERATORS[ident]
        try:
            e = engine_of(crate, ident, ref)
            if e["rows"] is None or any(e["consts"]):
                raise Unsupported("step of %s is not linear (see C07)" % ident)
        except (Anchor, Unsupported, SymbolicLoop) as ex:
            chk.ob("R1", "%s|step" % ident, False, "not established: %s" % ex)
            continue
        n = e["n"]
        rows = e["rows"]
        cols = alg.transpose(rows, n)
        chi = e.get("chi") or min_poly(rows, n)
        if alg.pdeg(chi) != n:
            chk.ob("R2", "%s|chi" % ident, False, "minimal polynomial of the step has degree %d, not %d" % (alg.pdeg(chi), n))
            continue
        # Krylov basis of v = e0
        ks = []
        x = 1
        for _ in range(n):
            ks.append(x)
            x = alg.matvec_cols(cols, x)
        cyclic = alg.rank(list(ks)) == n
        for meth, expo in sorted(REF.jump_exponents(n).items()):
            inst = "%s::%s" % (ident, meth)
            try:
                key = e["g"].method(None, meth)
                body = crate.body(key)
                chk.body(key)
                ev, st, pre, post, ret = e["g"].eval_method(key)
            except (Anchor, Unsupported, SymbolicLoop) as ex:
                chk.ob("R1", inst + "|linear", False, "not established: %s" % ex)
                continue
            cnt += 1
            where = body["span"][0]
            mrows, consts, bad = step_matrix(pre, post)
            lin = mrows is not None and not any(consts)
            chk.ob("R1", inst + "|post-state GF(2)-linear in pre-state", lin,
                   "" if lin else ("depends on %s" % T.show(bad, 3) if mrows is None else "constant term"), where=where)
            if not lin:
                continue
            if not cyclic:
                chk.ob("R2", inst + "|cyclic vector", False, "e0 is not a cyclic vector of the step matrix", where=where)
                continue
            mcols = alg.transpose(mrows, n)
            w0 = alg.matvec_cols(mcols, 1)
            p = alg.solve(ks, w0)
            if p is None:
                chk.ob("R2", inst + "|M is a polynomial in T", False, "M*e0 is not in the Krylov space", where=where)
                continue
            # M = p(T) on the whole basis:  M T^i v == T^i (M v)
            okc = True
            y = w0
            for i in range(n):
                if alg.matvec_cols(mcols, ks[i]) != y:
                    okc = False
                    break
                y = alg.matvec_cols(cols, y)
            chk.ob("R2", inst + "|M commutes with T on the Krylov basis (M = p(T))", okc,
                   "" if okc else "M*T^%d*v != T^%d*M*v: the jump is not a polynomial in the step" % (i, i), where=where)
            if not okc:
                continue
            pexp = alg.x_pow_2k_mod(expo, chi)
            good = p == pexp
            detail = "p = x^(2^%d) mod chi" % expo
            if not good:
                w = ref["w"]
                k = n // w
                wf, we = words(p, w, k), words(pexp, w, k)
                bad_words = [i for i in range(k) if wf[i] != we[i]]
                detail = "jump polynomial differs from x^(2^%d) mod chi in word(s) %s: found %s expected %s" % (
                    expo, bad_words, [hex(wf[i]) for i in bad_words], [hex(we[i]) for i in bad_words])
            chk.ob("R2", inst + "|distance 2^%d" % expo, good, detail, where=where,
                   sample={"obligation": inst, "distance_log2": expo, "polynomial_words": [hex(x) for x in words(p, ref["w"], n // ref["w"])]})
    chk.floor("R0", "jump bodies", cnt, 24)
    chk.trusted_base = TRUSTED
