"""Who may change a generator's state: every `&mut self` method outside the analysed operations (shared by C02, C03)."""
from .. import terms as T
from ..harness import State, Ref, flat_leaves, Unsupported, SymbolicLoop, Diverged, symbolic_args, sym_self
from ..evalmir import OpaqueV

ALLOWED_TRAITS = ("rand_core::RngCore", "rand_core::TryRngCore", "rand_core::block::BlockRngCore", "rand_core::SeedableRng")


def _last(path):
    """last path segment with every generic argument list removed"""
    out, depth = [], 0
    for ch in path:
        if ch == "<":
            depth += 1
        elif ch == ">":
            depth -= 1
        elif depth == 0:
            out.append(ch)
    return "".join(out).rstrip(":").split("::")[-1]


def _call_names(t, acc, depth=0):
    """names of the opaque calls a term's atoms come from"""
    if not isinstance(t, T.T) or depth > 8:
        return
    if t.op == "call":
        acc.add(str(t.aux))
        return
    if t.op in ("sym", "rng", "const", "arr"):
        if t.op != "const":
            acc.add("atom:" + str(t.aux if t.op != "rng" else t.aux[0]))
        return
    for a in t.args:
        _call_names(a, acc, depth + 1)
    if t.op == "ring":
        for mono, _ in t.aux:
            for i in mono:
                _call_names(T._ATOM[i], acc, depth + 1)


def check_block_mutators(chk, crate, idents, rule, opaque_defs):
    """the state of a block generator (wrapper and core) is written by the analysed operations only: a method of these types
    that takes `&mut self` and is not one of the RngCore / BlockRngCore / SeedableRng methods must leave every state word
    unchanged, or changed only by calls of those operations (kept opaque here)"""
    n = 0
    tys = crate.tys
    # the analysed operations stay calls: the core's generate, the types' own RngCore methods, and rand_core's BlockRng methods
    opaque_defs = list(opaque_defs)
    for ident in idents:
        for im in crate.impls_of(crate.adt_by_ident(ident)["path"]):
            if im.get("trait") in ("rand_core::RngCore", "rand_core::TryRngCore"):
                opaque_defs += [crate.bodies[k]["def"] for k in im["methods"].values() if k in crate.bodies]
    opaque_defs += [b["def"] for b in crate.bodies.values() if b["krate"] == "rand_core" and "rand_core::block::BlockRng" in b["def"]
                    and b["def"].split("::")[-1] in ("next_u32", "next_u64", "fill_bytes", "generate_and_set", "reset")]
    # ... but only the RngCore surface counts as "through the analysed operations": a method that drives generate /
    # generate_and_set / reset itself manipulates the stream position on its own account and is not covered by C05's table
    allowed_last = {"next_u32", "next_u64", "fill_bytes", "try_next_u32", "try_next_u64", "try_fill_bytes"}
    opaque_last = {d.split("::")[-1] for d in opaque_defs}
    for ident in idents:
        adt = crate.adt_by_ident(ident)
        tyid = crate.ty_of_adt(adt["path"])
        pubf = [f["name"] for f in adt["variants"][0]["fields"] if f.get("pub")]
        chk.ob(rule, "%s|no public state field" % ident, not pubf, "public fields: %s" % pubf, nontrivial=bool(pubf))
        for im in crate.impls_of(adt["path"]):
            tr = im.get("trait")
            if tr in ALLOWED_TRAITS or tr == "core::clone::Clone" or (tr or "").endswith("Deserialize"):
                continue
            for name, key in sorted(im["methods"].items()):
                b = crate.bodies.get(key)
                if b is None or b["argc"] < 1:
                    continue
                t1 = tys[b["locals"][1]]
                if not (t1["k"] == "ref" and t1["mut"] and tys[t1["to"]]["k"] == "adt" and tys[t1["to"]]["def"] == adt["path"]):
                    continue
                if not b.get("pub", True):
                    continue  # private helpers (and methods of crate-private traits) are reached through the operations that use them
                n += 1
                chk.body(key)
                where = b["span"][0]
                inst = "%s::%s" % (ident, name)
                rt = tys[b["locals"][0]]
                if rt["k"] in ("ref", "ptr") and rt["mut"]:
                    chk.ob(rule, inst + "|does not hand out a mutable reference into the generator", False, "returns %s" % rt["s"], where=where)
                    continue
                ev = crate.evaluator(max_steps=3000000)
                ev.summarise_loops = True
                for d in opaque_defs:
                    ev.no_inline.add(d)
                st = State()
                try:
                    ref, pre, oid = sym_self(ev, st, tyid, "self#state")
                    args, objs = symbolic_args(ev, st, b)
                    ev.call_body(st, key, [ref] + args[1:])
                except (Unsupported, SymbolicLoop, Diverged) as e:
                    chk.ob(rule, inst + "|state update", False, "not established: %s" % e, where=where)
                    continue
                post = flat_leaves(st.objs[oid])
                pre_ids = {id(x) for x in pre}
                foreign = []
                for x in post:
                    if id(x) in pre_ids or any(x is p_ for p_ in pre):
                        continue
                    names = set()
                    if isinstance(x, T.T):
                        _call_names(x, names)
                    elif isinstance(x, OpaqueV):
                        names.add(str(x.token))
                    else:
                        names.add(repr(x))
                    bad = [nm for nm in names if _last(nm) not in allowed_last]
                    if bad or not names:
                        foreign.append((T.show(x, 2) if isinstance(x, T.T) else repr(x))[:120])
                driven = sorted({_last(c[1]) for c in ev.calls if _last(c[1]) in opaque_last - allowed_last})
                ok = not foreign and not driven
                detail = ""
                if driven:
                    detail = "calls %s itself (the stream position is then its own responsibility, outside C05's table)" % driven
                elif foreign:
                    detail = "state word(s) written otherwise: %s" % foreign[:2]
                chk.ob(rule, inst + "|a public method outside the analysed operations leaves the state alone or changes it only through them",
                       ok, detail, where=where, sample={"type": ident, "method": name})
    return n
