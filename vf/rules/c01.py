"""C01 - xoshiro / xoroshiro / SplitMix64 equal the Blackman-Vigna reference."""
from .. import terms as T
from ..harness import Crate, State, Ref, ArrV, Struct, flat_leaves, Anchor, Unsupported, SymbolicLoop
from ..ref import xoshiro as REF
from .linear import Gen, RNGCORE, SEEDABLE, describe_diff

TRUSTED = ["rustc nightly: MIR construction, trait resolution, constant evaluation",
           "primitive table for core integer ops (vf/prims.py)",
           "rand_core::le::read_u32_into/read_u64_into summarised as little-endian decode (source pinned by hash)",
           "reference transcription vf/ref/xoshiro.py"]


def check_native(chk, g, ref):
    key = g.method(RNGCORE, ref["native"])
    body = g.crate.body(key)
    chk.body(key)
    ev, st, pre, post, ret = g.eval_method(key)
    w, n = ref["w"], ref["n"]
    ok_shape = len(pre) == n and all(p.w == w for p in pre)
    chk.ob("R1", "%s::%s|state-shape" % (g.ident, ref["native"]), ok_shape,
           "state has %d words of %s bits, reference has %d x %d" % (len(pre), sorted({p.w for p in pre}), n, w),
           nontrivial=False, where=body["span"][0])
    if not ok_shape:
        return
    exp_state = ref["step"](list(pre))
    exp_out = ref["out"](list(pre))
    for i in range(n):
        good = post[i] is exp_state[i]
        chk.ob("R1", "%s::%s|post-state word %d" % (g.ident, ref["native"], i), good,
               "" if good else describe_diff(post[i], exp_state[i]), where=body["span"][0],
               sample={"obligation": "%s::%s post-state word %d" % (g.ident, ref["native"], i), "normal_form": T.show(post[i], 4)} if i == n - 1 else None)
    good = ret is exp_out
    chk.ob("R2", "%s::%s|output" % (g.ident, ref["native"]), good,
           "" if good else describe_diff(ret, exp_out), where=body["span"][0],
           sample={"obligation": "%s::%s output" % (g.ident, ref["native"]), "normal_form": T.show(ret, 5)})


def eval_from_seed(g, assume_fn=None, inline_zero=False):
    """evaluate from_seed on symbolic seed bytes; the zero-seed replacement call stays opaque"""
    key = g.method(SEEDABLE, "from_seed")
    body = g.crate.body(key)
    ev = g.crate.evaluator()
    if not inline_zero:
        ev.no_inline.add("rand_core::SeedableRng::seed_from_u64")
    st = State()
    seed_ty = body["locals"][1]
    leaves = []
    seed = ev.symbolic(seed_ty, "seed", leaves)
    if assume_fn is not None:
        st.assume = tuple(assume_fn(leaves))
    ret = ev.call_body(st, key, [seed])
    if assume_fn is not None and st.assume:
        # the value under the stated assumption (a zero test written as a `match` on the decoded words is only recognised as
        # the all-zero test once its branches are merged, i.e. after the fact)
        from .. import loops as LP
        ret = map_leaves(ret, lambda t: LP.simplify_under(ev, st, t))
    return ev, st, leaves, ret, body, key


def map_leaves(v, fn):
    if isinstance(v, T.T):
        return fn(v)
    if isinstance(v, Struct):
        return Struct([map_leaves(f, fn) for f in v.fields])
    if isinstance(v, ArrV) and v.base is None and v.n <= 64:
        out = v
        for i in range(v.n):
            x = v.get(i)
            y = map_leaves(x, fn)
            if y is not x:
                out = out.set(i, y)
        return out
    return v


def allzero(leaves):
    return T.and1([T.eq(b, T.const(0, b.w)) for b in leaves])


def check_from_seed(chk, g, w, n):
    ev, st, seedb, ret, body, key = eval_from_seed(g, lambda lv: [T.bnot(allzero(lv))])
    chk.body(key)
    words = flat_leaves(ret)
    nbytes = n * w // 8
    good = len(seedb) == nbytes and all(b.w == 8 for b in seedb)
    chk.ob("R3", "%s::from_seed|seed-shape" % g.ident, good, "seed has %d leaves, reference expects %d bytes" % (len(seedb), nbytes),
           nontrivial=False, where=body["span"][0])
    if not good:
        return
    exp = REF.le_words(seedb, w)
    if len(words) != n:
        chk.ob("R3", "%s::from_seed|state-shape" % g.ident, False, "constructed state has %d words" % len(words), where=body["span"][0])
        return
    for i in range(n):
        good = words[i] is exp[i]
        chk.ob("R3", "%s::from_seed|state word %d (non-zero seed)" % (g.ident, i), good,
               "" if good else describe_diff(words[i], exp[i]), where=body["span"][0],
               sample={"obligation": "%s::from_seed word %d" % (g.ident, i), "normal_form": T.show(words[i], 3)} if i == 0 else None)


def check_splitmix(chk, crate):
    g = Gen(crate, "SplitMix64")
    for meth, reff in (("next_u64", REF.splitmix64_next_u64), ("next_u32", REF.splitmix64_next_u32)):
        key = g.method(RNGCORE, meth)
        body = crate.body(key)
        chk.body(key)
        ev, st, pre, post, ret = g.eval_method(key)
        if len(pre) != 1 or pre[0].w != 64:
            chk.ob("R1", "SplitMix64::%s|state-shape" % meth, False, "state is not one 64-bit word", where=body["span"][0])
            continue
        ex, eo = reff(pre[0])
        good = post[0] is ex
        chk.ob("R1", "SplitMix64::%s|post-state" % meth, good, "" if good else describe_diff(post[0], ex), where=body["span"][0])
        good = ret is eo
        chk.ob("R2", "SplitMix64::%s|output" % meth, good, "" if good else describe_diff(ret, eo), where=body["span"][0],
               sample={"obligation": "SplitMix64::%s output" % meth, "normal_form": T.show(ret, 6)})
    # seed decode: from_seed and seed_from_u64 are the little-endian identity
    ev, st, seedb, ret, body, key = eval_from_seed(g)
    chk.body(key)
    words = flat_leaves(ret)
    exp = REF.le_words(seedb, 64)
    good = len(words) == 1 and len(exp) == 1 and words[0] is exp[0]
    chk.ob("R3", "SplitMix64::from_seed|state", good, "" if good else "state is not the little-endian seed word", where=body["span"][0])


def run(chk, tier):
    crate = Crate("rand_xoshiro")
    chk.config(crate.config)
    count = 0
    for ident, ref in REF.GENERATORS.items():
        try:
            g = Gen(crate, ident)
        except Anchor as e:
            chk.ob("anchor", ident, False, str(e), nontrivial=False)
            continue
        count += 1
        for fn, args in ((check_native, (chk, g, ref)), (check_from_seed, (chk, g, ref["w"], ref["n"]))):
            try:
                fn(*args)
            except (Unsupported, SymbolicLoop, Anchor) as e:
                chk.ob("R1", "%s|%s" % (ident, fn.__name__), False, "not established: %s" % e)
    try:
        check_splitmix(chk, crate)
        count += 1
    except (Unsupported, SymbolicLoop, Anchor) as e:
        chk.ob("R1", "SplitMix64", False, "not established: %s" % e)
    # the public generator types of the crate are exactly the referenced ones
    pub = sorted(a["path"].split("::")[-1] for a in crate.facts["adts"] if a["pub"] and a["path"].split("::")[-1] != "Seed512")
    exp = sorted(list(REF.GENERATORS) + ["SplitMix64"])
    chk.ob("R0", "generator-set", pub == exp, "public ADTs %s vs reference table %s" % (pub, exp), nontrivial=False)
    chk.floor("R0", "generator types", count, 15)
    chk.trusted_base = TRUSTED
