"""C18 - output streams are identical across build profiles and feature sets."""
import os, re
from .. import facts, sq, terms as T
from ..harness import (Crate, State, Ref, ArrV, Struct, Anchor, Unsupported, SymbolicLoop, Diverged, symbolic_args, same_value)
from .c19 import generator_adts, GENERATORS

RULE = ("(R1) differential value numbering: every operation of every generator type is value-numbered on the same symbolic inputs in each build "
        "configuration (dev/rel profile flags x default/serde/std+log features) and the returned value and all reachable state must be the "
        "identical normal forms, and no overflow check (present in overflow-checked builds only) of a straight-line operation may be left "
        "undischarged (R2) (operations with a data-dependent loop are compared through their loop summaries: loop variables, initial "
        "values, invariant intervals, the per-iteration update terms, exit conditions, trip bound and calls per iteration); (R3) every cfg / cfg_attr / cfg! predicate atom in the sources is in the frozen allow-list and there is no "
        "debug_assert*, no debug_assertions / overflow_checks / target_endian / target_pointer_width dependence; (R4) unsafe blocks, fns and "
        "impls are exactly the frozen allow-list; (R5) no floating-point type occurs in any body reachable from a generator operation")
EXPLANATION = ("Decides that no source construct whose meaning depends on the build configuration can influence a generator operation; that "
               "overflow-checked arithmetic never reaches its failure edge is C14. Compiler/LLVM correctness, endianness and pointer width "
               "are outside the property's configuration set.")

SKIP_TRAITS = {"core::fmt::Debug", "serde::Serialize", "serde::Deserialize", "serde::ser::Serialize", "serde::de::Deserialize",
               "core::marker::StructuralPartialEq", "core::cmp::Eq"}
# callee defs kept opaque so that dependency loops over runtime-sized buffers do not have to be summarised here
OPAQUE = ["rand_core::impls::fill_bytes_via_next", "<rand_core::block::BlockRng<R> as rand_core::RngCore>::fill_bytes",
          "<rand_core::block::BlockRng64<R> as rand_core::RngCore>::fill_bytes", "rand_core::SeedableRng::seed_from_u64",
          "rand_core::SeedableRng::from_rng", "rand_core::SeedableRng::try_from_rng"]

ALLOWED_CFG_ATOMS = {'feature="serde"', "test", 'feature="std"', 'feature="log"', 'target_arch="wasm32"', 'target_os="macos"',
                     'target_os="ios"', 'target_os="windows"', "doc", "doctest"}
FORBIDDEN_WORDS = ["debug_assertions", "overflow_checks", "target_endian", "target_pointer_width", "debug_assert!", "debug_assert_eq!",
                   "debug_assert_ne!", "target_feature"]
UNSAFE_ALLOWED_FNS = {
    "<rand_isaac::isaac::IsaacCore as rand_core::SeedableRng>::from_rng": "byte view of the seed array followed by to_le",
    "<rand_isaac::isaac::IsaacCore as rand_core::SeedableRng>::try_from_rng": "same",
    "<rand_isaac::isaac64::Isaac64Core as rand_core::SeedableRng>::from_rng": "same (u64 words)",
    "<rand_isaac::isaac64::Isaac64Core as rand_core::SeedableRng>::try_from_rng": "same (u64 words)",
    "rand_jitter::black_box": "read_volatile of a local + forget: optimisation barrier only",
}


UNSAFE_MAX = {"rand_isaac": 4, "rand_jitter": 1}


def _role_of(fnpath):
    """(type ident, method) of an inherent or trait method path in either of rustc's spellings"""
    m = re.match(r"^<([\w:]+)(?:<.*>)? as [\w:]+>::(\w+)", fnpath)
    if m:
        return m.group(1).split("::")[-1], m.group(2)
    m = re.match(r"^[\w:]*<impl [\w:]+ for ([\w:]+)(?:<.*>)?>::(\w+)", fnpath)
    if m:
        return m.group(1).split("::")[-1], m.group(2)
    parts = fnpath.split("::")
    return (parts[-2] if len(parts) > 1 else ""), parts[-1]


ALLOWED_ROLES = {_role_of(k): v for k, v in UNSAFE_ALLOWED_FNS.items()}


def unsafe_allowed(crate, fnpath, depth=0):
    """an unsafe block is accepted in an allow-listed function (recognised by type and method, wherever the impl block lives) or in
    a private helper all of whose callers are accepted (the allow-listed code moved into a helper)"""
    if fnpath in UNSAFE_ALLOWED_FNS:
        return True, UNSAFE_ALLOWED_FNS[fnpath]
    r = _role_of(fnpath)
    if r in ALLOWED_ROLES:
        return True, ALLOWED_ROLES[r]
    pub = {f["path"]: f["pub"] for f in crate.facts["fns"]}
    if depth < 3 and pub.get(fnpath) is False:
        from .c08 import callers_of
        key = next((k for k, b in crate.bodies.items() if b["def"] == fnpath), None)
        if key is not None:
            cs = {crate.bodies[c]["def"] for c in callers_of(crate, key) if c != key}
            # closures passed to the helper are part of their parent function
            cs = {re.sub(r"::\{closure#\d+\}$", "", c) for c in cs}
            if cs and all(unsafe_allowed(crate, c, depth + 1)[0] for c in cs):
                return True, "private helper called only from allow-listed functions"
    return False, "unsafe block outside the allow-list"


def eval_op(crate, key, opaque_extra=(), summarise=False):
    ev = crate.evaluator(max_steps=6000000) if summarise else crate.evaluator()
    if summarise:
        ev.summarise_loops = True
        # interval invariants are artefacts of the analysis (they use the overflow assumptions that only the dev profile has);
        # the comparison is about the loop's effect, so loop variables are left unconstrained
        ev.loop_intervals = False
        ev.unroll_limit = 1100 if crate.name != "rand_jitter" else 100
    for d in OPAQUE:
        ev.no_inline.add(d)
    for d in opaque_extra:
        ev.no_inline.add(d)
    # the `log` facade receives shared references and formatted copies only (a &mut argument would be havocked and show up as a
    # state difference), so a logging call cannot change what the operation returns or stores: it is not an effect to compare
    ev.neutral_crates.add("log")
    st = State()
    body = crate.bodies[key]
    args, objs = symbolic_args(ev, st, body)
    ret = ev.call_body(st, key, args)
    ncalls = sum(1 for c in ev.calls if not (c[3] == "fmt" or c[1].startswith("log::") or c[1].startswith("<log::")))
    # arithmetic checks that exist in overflow-checked builds only and are not shown unreachable here (straight-line operations
    # only: inside summarised loops the interval invariants that C14 uses are not computed)
    open_ovf = []
    if not summarise:
        for a in ev.asserts:
            if a.kind.startswith("Overflow") and not a.discharged and "rand_core-" not in a.span[0] and ".cargo/registry" not in a.span[0]:
                open_ovf.append((a.kind, a.span[0]))
    return ret, {n: st.objs[o] for n, o in objs.items()}, st.world, ncalls, loop_signatures(crate, ev), open_ovf


TEMP_RE = re.compile(r"^L\d+\.t\d+")


def loop_signatures(crate, ev):
    """configuration-independent description of every summarised loop: owning function and, for every loop variable that lives in
    a source-level variable or in caller-visible state, its initial value, invariant interval and value after one more iteration;
    continuation and exit conditions, trip bound, calls per iteration. Compiler temporaries (whose number depends on the build
    profile) are left out, and the signature is marked unusable when a compared term mentions one."""
    out = []
    for rec in ev.loops_log:
        fn = crate.bodies[rec.body]["def"] if rec.body in crate.bodies else rec.body
        temps = {n for n, wh, init, t, rng in rec.vars if TEMP_RE.match(n)}
        vs = []
        terms = []
        for n, wh, init, t, rng in rec.vars:
            if n in temps:
                continue
            nxt = tuple((c[1].get(n) if isinstance(c[1].get(n), T.T) else None) for c in rec.conts)
            vs.append((n, init if isinstance(init, T.T) else None, rng, nxt))
            terms.extend(x for x in nxt if x is not None)
        conds = tuple((c, w) for c, nxt, w, a in rec.conts)
        exits = tuple((c, how) for c, how, at in rec.exits)
        terms.extend(c for c, w in conds)
        terms.extend(w for c, w in conds)
        terms.extend(c for c, how in exits)
        live_temp = False
        if temps:
            acc = set()
            for t in terms:
                if isinstance(t, T.T):
                    T.atoms_of(t, acc)
            live_temp = bool(acc & temps)
        out.append((fn, tuple(vs), conds, exits, rec.trip, len(rec.calls), live_temp))
    return out


def same_loops(a, b):
    """-> True / False / None (None: a compiler temporary is live across iterations, the signatures cannot be compared)"""
    if len(a) != len(b):
        return False
    if any(x[6] for x in a) or any(y[6] for y in b):
        return None
    for x, y in zip(a, b):
        if x[0] != y[0] or x[4] != y[4] or x[5] != y[5] or len(x[1]) != len(y[1]) or len(x[2]) != len(y[2]) or len(x[3]) != len(y[3]):
            return False
        for (n1, i1, r1, nx1), (n2, i2, r2, nx2) in zip(x[1], y[1]):
            if n1 != n2 or i1 is not i2 or r1 != r2 or len(nx1) != len(nx2) or any(p is not q for p, q in zip(nx1, nx2)):
                return False
        for (c1, w1), (c2, w2) in zip(x[2], y[2]):
            if c1 is not c2 or w1 is not w2:
                return False
        for (c1, h1), (c2, h2) in zip(x[3], y[3]):
            if c1 is not c2 or h1 != h2:
                return False
    return True


SLOW_SUMMARISED = ("rand_jitter::JitterRng::<F>::test_timer",)  # ~18 s per configuration: thorough tier only


def strip_comments_and_strings(src):
    out = []
    i = 0
    n = len(src)
    while i < n:
        c = src[i]
        if src.startswith("//", i):
            j = src.find("\n", i)
            i = n if j < 0 else j
        elif src.startswith("/*", i):
            j = src.find("*/", i + 2)
            i = n if j < 0 else j + 2
        elif c == '"':
            j = i + 1
            while j < n and src[j] != '"':
                j += 2 if src[j] == "\\" else 1
            out.append(src[i:j + 1])  # keep string literals: cfg predicates contain them
            i = j + 1
        else:
            out.append(c)
            i += 1
    return "".join(out)


CFG_RE = re.compile(r"(#!?\[\s*cfg(_attr)?\s*\(|\bcfg!\s*\()")


def cfg_predicates(src):
    """-> list of (kind, predicate text) for every cfg(..), cfg_attr(..), cfg!(..) occurrence"""
    out = []
    for m in CFG_RE.finditer(src):
        i = m.end()
        depth = 1
        j = i
        while j < len(src) and depth:
            if src[j] == "(":
                depth += 1
            elif src[j] == ")":
                depth -= 1
            j += 1
        inner = src[i:j - 1]
        kind = "cfg_attr" if m.group(2) else ("cfg!" if "cfg!" in m.group(0) else "cfg")
        if kind == "cfg_attr":
            # predicate is the first top-level comma-separated item
            d = 0
            for k, ch in enumerate(inner):
                if ch == "(":
                    d += 1
                elif ch == ")":
                    d -= 1
                elif ch == "," and d == 0:
                    inner = inner[:k]
                    break
        out.append((kind, re.sub(r"\s+", "", inner)))
    return out


def pred_atoms(p):
    return [a for a in re.split(r"[(),]|\ball\b|\bany\b|\bnot\b", p) if a]


def run(chk, tier):
    base_cfg = ("default", "dev")
    if tier == "thorough":
        others = [("default", "rel"), ("serde", "dev"), ("serde", "rel"), ("jitter-std", "dev"), ("jitter-std", "rel")]
    else:
        others = [("default", "rel"), ("serde", "dev"), ("jitter-std", "dev")]
    compared = 0
    skipped = []
    nops = 0
    summarised = set()
    nsumm = nloops = 0
    for cname in facts.CRATES:
        base = Crate(cname, *base_cfg)
        chk.config(base.config)
        adts = generator_adts(base)
        paths = {a["path"] for a in adts}
        ops = []
        for im in base.facts["impls"]:
            if im.get("self_adt") in paths and im.get("trait") not in SKIP_TRAITS and not (im.get("trait") or "").startswith("serde"):
                for m, key in sorted(im["methods"].items()):
                    ops.append((im["self_adt"].split("::")[-1], im.get("trait"), m, key))
        # plus private helper bodies of the crate that the operations are built from
        for key, b in sorted(base.bodies.items()):
            if b["krate"] == cname and b["kind"] in ("Fn", "AssocFn") and not any(key == o[3] for o in ops):
                if any(x in key for x in ("serde", "Serialize", "Deserialize", "fmt::", "TimerError", "platform")):
                    continue
                ops.append((key.split("::")[-2] if "::" in key else key, None, key.split("::")[-1], key))
        nops += len(ops)
        pubfn = {f["path"]: f["pub"] for f in base.facts["fns"]}
        api_summarised = []
        base_results = {}
        for ident, tr, m, key in ops:
            try:
                base_results[key] = eval_op(base, key)
            except SymbolicLoop as e:
                base_results[key] = e
                if tier == "thorough" or base.bodies[key]["def"] not in SLOW_SUMMARISED:
                    try:
                        base_results[key] = eval_op(base, key, summarise=True)
                        summarised.add(key)
                        if tr is not None or pubfn.get(base.bodies[key]["def"]):
                            api_summarised.append((ident, m, key))
                    except (Unsupported, SymbolicLoop, Diverged, RecursionError) as e2:
                        base_results[key] = e2
            except (Unsupported, Diverged, RecursionError) as e:
                base_results[key] = e
        for oc in others:
            if oc[0] == "serde" and cname not in ("rand_xoshiro", "rand_isaac", "rand_xorshift"):
                continue
            if oc[0] == "jitter-std" and cname != "rand_jitter":
                continue
            other = Crate(cname, *oc)
            chk.config(other.config)
            for ident, tr, m, key in ops:
                inst = "%s::%s [%s vs %s/%s]" % (ident, m, base.config, oc[0], oc[1])
                if key not in other.bodies:
                    chk.ob("R1", inst + "|present", False, "operation %s does not exist in configuration %s/%s" % (key, oc[0], oc[1]))
                    continue
                b0 = base_results[key]
                try:
                    r1 = eval_op(other, key, summarise=key in summarised)
                except (Unsupported, SymbolicLoop, Diverged, RecursionError) as e:
                    r1 = e
                if isinstance(b0, Exception) or isinstance(r1, Exception):
                    if isinstance(b0, Exception) and isinstance(r1, Exception):
                        skipped.append("%s (%s)" % (key, type(b0).__name__))
                        continue
                    chk.ob("R1", inst + "|analysable in both", False, "value numbering succeeds in only one configuration: %s / %s" % (b0, r1),
                           where=base.bodies[key]["span"][0])
                    continue
                chk.body(key)
                sl = same_loops(b0[4], r1[4])
                if sl is None:
                    skipped.append("%s (compiler temporary live across loop iterations)" % key)
                    continue
                ok = same_value(b0[0], r1[0]) and set(b0[1]) == set(r1[1]) and all(same_value(b0[1][n], r1[1][n]) for n in b0[1]) \
                    and b0[2] is r1[2] and b0[3] == r1[3] and sl
                compared += 1
                # private helpers are judged through the operations that call them (with the callers' argument values)
                for kind_, sp_ in (sorted(set(b0[5] + r1[5])) if (tr is not None or pubfn.get(base.bodies[key]["def"])) else []):
                    chk.ob("R2", "%s::%s|%s at %s cannot fail" % (ident, m, kind_, sp_), False,
                           "an arithmetic check that only overflow-checked builds contain may fail: such builds panic where the others wrap",
                           where=sp_)
                if key in summarised:
                    nsumm += 1
                    nloops += len(b0[4])
                chk.ob("R1", inst + "|identical value and state effects", ok,
                       "" if ok else "normal forms differ between configurations", where=base.bodies[key]["span"][0],
                       sample={"operation": key, "configs": [base.config, "%s/%s" % oc], "identical": ok} if compared % 97 == 1 else None)
        # R2 for the operations with data-dependent loops: their profile-only overflow checks need the interval invariants of the
        # loop summaries, so they are evaluated once more the way C14 evaluates a root (dev facts) and every overflow check left
        # undischarged is reported (other kinds of assert exist in every profile and are C14's)
        from . import c14
        for ident, m, key in api_summarised:
            try:
                ev_, st_, args_, ret_, body_, hc_ = c14.eval_root(base, key)
            except (Unsupported, SymbolicLoop, Diverged, RecursionError):
                continue
            seen_ = set()
            for a in ev_.asserts:
                if a.kind.startswith("Overflow") and not a.discharged and "rand_core-" not in a.span[0] and ".cargo/registry" not in a.span[0] \
                        and (a.kind, a.span[0]) not in seen_:
                    seen_.add((a.kind, a.span[0]))
                    chk.ob("R2", "%s::%s|%s at %s cannot fail" % (ident, m, a.kind, a.span[0]), False,
                           "an arithmetic check that only overflow-checked builds contain may fail: such builds panic where the others wrap",
                           where=a.span[0])
            chk.ob("R2", "%s::%s|profile-only overflow checks inside its loops are unreachable" % (ident, m), not seen_, "", nontrivial=False)
    chk.extra["operations"] = nops
    chk.extra["compared"] = compared
    chk.extra["compared_through_loop_summaries"] = nsumm
    chk.extra["loop_summaries_compared"] = nloops
    chk.extra["not_value_numbered_in_any_config"] = sorted(set(skipped))[:60]
    chk.floor("R1", "operation comparisons", compared, 380 if tier == "quick" else 650)

    # ---- R3 cfg scan
    occ = []
    for root, dirs, files in os.walk(facts.REPO):
        dirs[:] = [d for d in sorted(dirs) if d not in ("target", ".git", "benches")]
        for fn in sorted(files):
            if not fn.endswith(".rs"):
                continue
            p = os.path.join(root, fn)
            rel = os.path.relpath(p, facts.REPO)
            if not rel.split(os.sep)[0].startswith("rand_"):
                continue
            src = strip_comments_and_strings(open(p, encoding="utf8").read())
            for kind, pred in cfg_predicates(src):
                occ.append((rel, kind, pred))
                bad = [a for a in pred_atoms(pred) if a not in ALLOWED_CFG_ATOMS]
                if bad:
                    chk.ob("R3", "cfg predicate %s in %s" % (pred, rel), False, "configuration predicate outside the allow-list: %s" % bad, where=rel)
            code = re.sub(r'"(\\.|[^"\\])*"', '""', src)
            for wd in FORBIDDEN_WORDS:
                if wd in code:
                    chk.ob("R3", "%s mentions %s" % (rel, wd), False, "source depends on a build-profile setting", where=rel)
    chk.ob("R3", "cfg predicates|all atoms in allow-list", True, "%d cfg occurrences scanned" % len(occ),
           sample={"cfg_occurrences": len(occ), "distinct_predicates": sorted({p for _, _, p in occ})})
    chk.floor("R3", "cfg occurrences", len(occ), 60)  # 86 on the reference tree; vacuity guard
    # cfg! inside bodies: only the wasm32 guard of JitterRng::new
    cfgbang = [(f, p) for f, k, p in occ if k == "cfg!"]
    okb = all(p == 'target_arch="wasm32"' for _, p in cfgbang)
    chk.ob("R3", "cfg!() uses", okb, "cfg! occurrences: %s" % cfgbang, nontrivial=False)

    # ---- R4 unsafe allow-list, R5 floats
    for config in ("default", "jitter-std"):
        for cname in (facts.CRATES if config == "default" else ["rand_jitter"]):
            crate = Crate(cname, config)
            nunsafe = 0
            for u in crate.facts["unsafe_blocks"]:
                if u["from_expansion"]:
                    continue
                nunsafe += 1
                okk, why = unsafe_allowed(crate, u["fn"])
                chk.ob("R4", "unsafe block in %s [%s]" % (u["fn"], config), okk, why, where=u["span"], nontrivial=False)
            lim = UNSAFE_MAX.get(cname, 0)
            chk.ob("R4", "%s[%s]|at most %d unsafe block(s)" % (cname, config, lim), nunsafe <= lim, "%d unsafe blocks" % nunsafe, nontrivial=False)
            for f in crate.facts["fns"]:
                if f["unsafe"]:
                    chk.ob("R4", "unsafe fn %s [%s]" % (f["path"], config), False, "unsafe fn outside the allow-list", where=f["span"])
            for im in crate.facts["impls"]:
                if im.get("unsafe_impl") and not im["derived"]:
                    chk.ob("R4", "unsafe impl %s [%s]" % (im["path"], config), False, "hand-written unsafe impl", where=im["span"][0])
            nfl = 0
            for key, b in crate.bodies.items():
                for tid in b["locals"]:
                    if crate.tys[tid]["k"] == "float":
                        nfl += 1
                        chk.ob("R5", "float local in %s [%s]" % (key, config), False, "floating-point value in a reachable body", where=b["span"][0])
            chk.ob("R5", "%s[%s]|no floating-point locals" % (cname, config), nfl == 0, "", nontrivial=False)
            # addresses differ between profiles and targets (stack layout, alignment of locals): no pointer-to-integer cast and
            # no address-inspecting library call in the crate's own bodies
            from .c19 import ADDRESS_FNS
            addr = []
            for key, b in crate.bodies.items():
                if b["krate"] != cname:
                    continue
                for _, s_ in sq.iter_stmts(b):
                    if s_[0] == "a" and s_[2][0] == "cast" and ("PointerExpose" in s_[2][1] or "PointerWithExposed" in s_[2][1]):
                        addr.append("%s cast in %s" % (s_[2][1], b["def"]))
                for _, t_ in sq.iter_calls(b):
                    d_ = t_[1].get("rdef") or t_[1].get("def") or ""
                    if ADDRESS_FNS.search(d_):
                        addr.append("%s called in %s" % (d_.split("::")[-1], b["def"]))
            chk.ob("R5", "%s[%s]|nothing depends on an address (pointer-to-integer casts, align_offset, ...)" % (cname, config), not addr,
                   "address-dependent: %s" % sorted(set(addr))[:4], nontrivial=bool(addr))
