"""C14 - no generator operation panics or overflows."""
import re
from .. import facts, terms as T, prims as P, sq
from ..harness import (Crate, State, Ref, ArrV, Struct, EnumV, OpaqueV, Anchor, Unsupported, SymbolicLoop, Diverged, symbolic_args)
from .c19 import callee_ok, GENERATORS
from .c18 import OPAQUE as DEP_LOOPS

RULE = ("every API root (public inherent method, trait-impl method, public fn) of the five crates is abstractly evaluated on the dev-profile "
        "MIR (overflow checks and debug assertions on) with unconstrained arguments (any seed bytes, u64, buffer length, source RNG, timer) "
        "and, for Hc128Core, the inductive class invariant counter1024 = 0 (mod 16); loops with non-constant exits are replaced by interval "
        "invariants (vf/loops.py). Every Assert terminator and library precondition reached must have its condition folded to the expected "
        "constant or implied by path assumptions / intervals (R1); every reachable explicit panic call must be in the documented table (R2); "
        "every body-less callee must be a classified primitive (R3); the class invariant is re-proved at every exit (R1.inv)")
TRUSTED = ["rustc nightly: MIR construction incl. the inserted overflow / bounds / division checks", "primitive table with panic preconditions (vf/prims.py)",
           "interval and known-bits reasoning of vf/terms.py, vf/prims.py; loop invariants by vf/loops.py",
           "rand_core generic machinery beyond the call preconditions is the dependency's (asserts located in rand_core sources are listed, not judged)"]

# documented panics: (function def path) -> reason
DOCUMENTED_PANICS = {
    "rand_jitter::JitterRng::<F>::set_rounds": "documented: set_rounds(0) panics (the caller chose 0)",
}
EXCLUDED_ROOTS = {
    "rand_jitter::error::TimerError::description": "unreachable!() on the hidden __Nonexhaustive variant: not a generator operation",
}
EXCLUDED_PANIC_FNS = {
    "rand_jitter::error::TimerError::description": "unreachable!() on the doc(hidden) __Nonexhaustive variant, which no API produces",
    "rand_jitter::platform::get_nstime": "SystemTime before the UNIX epoch: a broken system clock is not a timer reading of the property's domain",
}
# vacuity guards only. Checked operations come and go with ordinary refactoring (a shift written as `>>= 1`, a loop over an
# iterator instead of an index, Wrapping<T> instead of `+`), so the floor on assert edges is a quarter of the reference count
# (300/202/124/45/13); what must not shrink silently is the set of API roots that were evaluated.
FLOORS = {"rand_xoshiro": 75, "rand_hc": 50, "rand_isaac": 30, "rand_jitter": 11, "rand_xorshift": 1}
ROOT_FLOORS = {"rand_xoshiro": 130, "rand_hc": 11, "rand_isaac": 32, "rand_jitter": 7, "rand_xorshift": 8}  # reference: 165/14/41/9/10


def roots_of(crate):
    out = []
    pubfn = {f["path"]: f for f in crate.facts["fns"]}
    want = GENERATORS[crate.name]
    local_adts = {a["path"] for a in crate.facts["adts"]
                  if (want is None and a["pub"]) or (want is not None and a["path"].split("::")[-1] in want) or a["path"].endswith("Seed512")}
    for im in crate.facts["impls"]:
        if im.get("self_adt") not in local_adts:
            continue
        tr = im.get("trait")
        if tr and ("serde" in tr):
            continue
        for m, key in sorted(im["methods"].items()):
            b = crate.bodies.get(key)
            if b is None:
                continue
            if tr is None and not b.get("pub"):
                continue
            out.append(key)
    for key, b in crate.bodies.items():
        if b["krate"] == crate.name and b["kind"] == "Fn" and b.get("pub") and key not in out:
            out.append(key)
    return out


def is_hc_counter(ev, fields, i):
    """the step counter of Hc128Core: today's name, else its only usize field"""
    if any(f["name"] == "counter1024" for f in fields):
        return fields[i]["name"] == "counter1024"
    us = [j for j, f in enumerate(fields) if ev.tys[f["ty"]].get("s") in ("usize", "u16", "u32", "u64")]
    return len(us) == 1 and us[0] == i


def hc_invariant_self(ev, st, args, body):
    """Hc128Core.counter1024 = 16*q (class invariant): rewrite the symbolic self accordingly; returns (oid, path) list"""
    spots = []

    def fix(v, tyid):
        t = ev.tys[tyid]
        if t["k"] == "adt" and t["adt_kind"] == "struct":
            fs = t["variants"][0]["fields"]
            if len(fs) == 1:
                return fix(v, fs[0]["ty"])
            if not isinstance(v, Struct):
                return v
            out = list(v.fields)
            for i, f in enumerate(fs):
                if is_hc_counter(ev, fs, i) and t["def"].endswith("Hc128Core") and isinstance(out[i], T.T):
                    out[i] = T.shl(T.zext(T.sym(str(out[i].aux) + "/16", out[i].w - 4), out[i].w), 4)
                    spots.append(True)
                else:
                    out[i] = fix(out[i], f["ty"])
            return Struct(out)
        return v

    for i, a in enumerate(args):
        tyid = body["locals"][i + 1]
        t = ev.tys[tyid]
        if isinstance(a, Ref) and t["k"] in ("ref", "ptr"):
            st.objs[a.obj] = fix(st.objs[a.obj], t["to"])
        else:
            args[i] = fix(a, tyid)
    return bool(spots)


def check_hc_invariant(chk, ev, st, args, body, key):
    """at exit, counter1024 of every Hc128Core reachable from the arguments / result is 0 mod 16"""
    bad = []

    def scan(v, tyid, path):
        t = ev.tys[tyid]
        if t["k"] == "adt" and t["adt_kind"] == "struct":
            fs = t["variants"][0]["fields"]
            if len(fs) == 1:
                return scan(v, fs[0]["ty"], path)
            if not isinstance(v, Struct):
                return
            for i, f in enumerate(fs):
                if is_hc_counter(ev, t["variants"][0]["fields"], i) and t["def"].endswith("Hc128Core") and isinstance(v.fields[i], T.T):
                    cv = v.fields[i]
                    if cv.op == "res" and cv.args[0].op == "call" and "rand_core::" in str(cv.args[0].aux):
                        continue  # written by the dependency's generic code, which only calls generate()
                    k, val = T.known_bits(v.fields[i])
                    if (k & 15) != 15 or (val & 15) != 0:
                        bad.append((path, T.show(v.fields[i], 3)))
                else:
                    scan(v.fields[i], f["ty"], path + "." + f["name"])
    for i, a in enumerate(args):
        tyid = body["locals"][i + 1]
        t = ev.tys[tyid]
        if isinstance(a, Ref) and t["k"] in ("ref", "ptr") and a.obj in st.objs:
            scan(st.objs[a.obj], t["to"], "arg%d" % i)
    return bad


def assert_key(a, crate):
    fn = crate.bodies[a.body]["def"] if a.body in crate.bodies else a.body
    return fn, a.kind


BOUNDED_LENS = list(range(0, 18))


def has_slice_arg(crate, key, ev_tys):
    body = crate.bodies[key]
    for i in range(1, body["argc"] + 1):
        t = ev_tys[body["locals"][i]]
        if t["k"] in ("ref", "ptr") and ev_tys[t["to"]]["k"] == "slice":
            return True
    return False


def eval_root(crate, key, config_std=False, slice_len=None):
    ev = crate.evaluator(max_steps=6000000)
    ev.summarise_loops = True
    ev.unroll_limit = 1100 if crate.name != "rand_jitter" else 100
    # rand_core's loops over a runtime-sized destination are the dependency's; the delegation itself is C05
    for d in ("rand_core::impls::fill_bytes_via_next", "<rand_core::block::BlockRng<R> as rand_core::RngCore>::fill_bytes",
              "<rand_core::block::BlockRng64<R> as rand_core::RngCore>::fill_bytes"):
        ev.no_inline.add(d)
    st = State()
    body = crate.bodies[key]
    args, objs = symbolic_args(ev, st, body)
    if slice_len is not None:
        # fallback for own loops over a runtime-sized slice that the evaluator cannot summarise: one constant length at a time
        for i, a in enumerate(args):
            if isinstance(a, Ref) and a.win is not None:
                w = st.objs[a.obj].w
                oid = st.alloc(ArrV(slice_len, w, None, None, {j: T.sym("%s[%d]" % (body["names"].get(str(i + 1)) or "a", j), w) for j in range(slice_len)}), "slice")
                args[i] = Ref(oid, (), (0, slice_len), a.mut)
    hc = False
    if crate.name == "rand_hc":
        hc = hc_invariant_self(ev, st, args, body)
    ret = ev.call_body(st, key, args)
    return ev, st, args, ret, body, hc


def run(chk, tier, only_crate=None):
    configs = [("default", facts.CRATES), ("jitter-std", ["rand_jitter"])]
    if tier == "thorough":
        # every root once more in the serde configuration of the crates that have one (the derive output is not a generator
        # operation and is left out by roots_of; what is re-examined is that enabling the feature changes no panic edge)
        configs.append(("serde", ["rand_xoshiro", "rand_xorshift", "rand_isaac"]))
    total_asserts = {}
    for config, names in configs:
        for cname in names:
            if only_crate and cname != only_crate:
                continue
            crate = Crate(cname, config, "dev")
            chk.config(crate.config)
            if not crate.facts["overflow_checks"] or not crate.facts["debug_assertions"]:
                chk.ob("R0", "%s[%s]|dev-profile facts" % (cname, config), False, "facts were not extracted with overflow checks and debug assertions")
            roots = roots_of(crate)
            seen_asserts = {}  # (fn, kind, span) -> discharged on every visit?
            panic_sites = {}
            dep_asserts = 0
            nroots = 0
            for key in roots:
                fn = crate.bodies[key]["def"]
                if fn in EXCLUDED_ROOTS:
                    continue
                # (every root is evaluated again with all of rand_jitter's features on: the logging macros, and whatever a new
                # feature gates, expand to code only there)
                runs = []
                try:
                    runs.append(eval_root(crate, key))
                except Diverged:
                    chk.ob("R1", "%s|root always panics" % key, False, "every path of this operation ends in a panic", where=crate.bodies[key]["span"][0])
                    continue
                except (Unsupported, SymbolicLoop, RecursionError) as e:
                    first = e
                    if has_slice_arg(crate, key, crate.evaluator().tys):
                        try:
                            for n in BOUNDED_LENS:
                                runs.append(eval_root(crate, key, slice_len=n))
                        except Diverged:
                            chk.ob("R1", "%s|root always panics" % key, False, "every path ends in a panic for a slice of length %d" % n, where=crate.bodies[key]["span"][0])
                            continue
                        except (Unsupported, SymbolicLoop, RecursionError) as e2:
                            runs = []
                    if not runs:
                        chk.ob("R1", "%s|analysable" % key, False, "abstract evaluation not possible: %s" % str(first)[:300], where=crate.bodies[key]["span"][0])
                        continue
                    chk.ob("R1", "%s|own loop over a runtime-sized slice: decided for slice lengths %d..=%d only" % (key, BOUNDED_LENS[0], BOUNDED_LENS[-1]),
                           True, "", where=crate.bodies[key]["span"][0], nontrivial=False)
                    chk.extra.setdefault("bounded_roots", []).append(key)
                nroots += 1
                chk.body(key)
                for ev, st, args, ret, body, hc in runs:
                    if hc:
                        bad = check_hc_invariant(chk, ev, st, args, body, key)
                        chk.ob("R1.inv", "%s|Hc128Core.counter1024 stays 0 mod 16" % key, not bad, "violated at %s" % bad, where=body["span"][0])
                    for a in ev.asserts:
                        sp = a.span[0]
                        if "rand_core-" in sp or ".cargo/registry" in sp:
                            dep_asserts += 1
                            continue
                        fnn = crate.bodies[a.body]["def"] if a.body in crate.bodies else a.body
                        if fnn in EXCLUDED_PANIC_FNS:
                            continue
                        k = (fnn, a.kind, sp, a.span[1])
                        prev = seen_asserts.get(k)
                        if prev is None or (prev[0] and not a.discharged):
                            seen_asserts[k] = (a.discharged, a, key)
                    for p in ev.panics:
                        fnn = crate.bodies[p["body"]]["def"] if p["body"] in crate.bodies else p["body"]
                        sp = p["span"][0]
                        if "rand_core-" in sp or ".cargo/registry" in sp:
                            continue
                        panic_sites.setdefault((fnn, sp, p["span"][1]), []).append((key, p))
                    # R3: unclassified callees
                    for c in ev.calls:
                        caller, name, span, why, call = c[0], c[1], c[2], c[3], c[4]
                        if why in ("unresolved", "synthetic", "recursion", "fmt", "no-inline"):
                            continue
                        if name.startswith("rand_core::impls::fill_bytes_via_next") or "rand_core::block::BlockRng" in name:
                            continue
                        if config == "jitter-std" and re.match(r"^((rand_jitter::)?std::time::|core::time::|log::|<.*log::|core::cmp::PartialOrd::le)", name):
                            continue
                        if why in ("primitive", "no-mir", "intrinsic", "shim", "virtual") :
                            chk.ob("R3", "%s|callee %s" % (crate.bodies[caller]["def"] if caller in crate.bodies else caller, name), False,
                                   "call to a function that is neither inlined nor in the primitive table (%s)" % why, where=span[0])
            # ---- judge asserts
            per_fn_counter = {}
            nass = 0
            for k in sorted(seen_asserts, key=lambda x: (x[0], x[2], x[1])):
                ok, a, root = seen_asserts[k]
                fnn, kind, sp, cs = k
                idx = per_fn_counter.get((fnn, kind), 0)
                per_fn_counter[(fnn, kind)] = idx + 1
                nass += 1
                detail = ""
                if not ok:
                    ops = [T.show(o, 3) if isinstance(o, T.T) else str(o) for o in a.ops]
                    rng = []
                    for o in a.ops:
                        if isinstance(o, T.T):
                            rng.append("[%d,%d]" % T.urange(o))
                    detail = "%s may fail: condition %s; operands %s with intervals %s; reached from %s via %s" % (
                        kind, T.show(a.cond, 3), ops, rng, root, " > ".join(x.split("::")[-1] for x in a.chain[-4:]))
                chk.ob("R1", "%s|%s #%d" % (fnn, kind, idx), ok, detail, where="%s (expanded at %s)" % (sp, cs) if cs != sp else sp,
                       nontrivial=(a.how != "const"),
                       sample=({"assert": kind, "fn": fnn, "at": sp, "discharged_by": a.how, "condition": T.show(a.cond, 3)}
                               if a.how != "const" and idx == 0 else None))
            total_asserts[(cname, config)] = nass
            chk.extra.setdefault("asserts_per_crate", {})["%s[%s]" % (cname, config)] = nass
            chk.extra.setdefault("dependency_asserts_listed_not_judged", {})["%s[%s]" % (cname, config)] = dep_asserts
            chk.extra.setdefault("roots", {})["%s[%s]" % (cname, config)] = nroots
            # ---- judge explicit panics
            for (fnn, sp, cs), lst in sorted(panic_sites.items()):
                root, p = lst[0]
                rootfn = crate.bodies[root]["def"]
                if fnn in EXCLUDED_PANIC_FNS:
                    chk.extra.setdefault("excluded_panics", []).append({"fn": fnn, "at": sp, "reason": EXCLUDED_PANIC_FNS[fnn]})
                    continue
                documented = all(crate.bodies[r]["def"] == fnn and fnn in DOCUMENTED_PANICS for r, _ in lst)
                chk.ob("R2", "%s|explicit panic%s" % (fnn, " (documented API contract)" if documented else ""), documented,
                       DOCUMENTED_PANICS.get(fnn, "") if documented else
                       "panic call reachable (message %r) from %s under %s" % (p["msg"], sorted({crate.bodies[r]["def"] for r, _ in lst})[:3],
                                                                            [T.show(x, 2) for x in p["assume"][-3:]]),
                       where=sp, nontrivial=True,
                       sample={"panic_site": fnn, "documented": documented})
            if config in ("default", "serde"):
                chk.floor("R0", "assert edges in %s" % cname, nass, FLOORS[cname])
                chk.floor("R0", "API roots evaluated in %s" % cname, nroots, ROOT_FLOORS[cname])
    chk.trusted_base = TRUSTED
