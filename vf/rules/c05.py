"""C05 - next_u32 / next_u64 / fill_bytes are projections of one forward-only stream."""
from .. import terms as T
from ..harness import (Crate, State, Ref, ArrV, Struct, flat_leaves, Anchor, Unsupported, SymbolicLoop, Diverged, sym_self, synth_call,
                       sym_slice, same_value, ref_ty, ty_id)
from ..ref import xoshiro as REF
from .linear import Gen, RNGCORE

RULE = ("each RngCore method body of each generator is value-numbered with the method it must be a projection of kept as an opaque "
        "call (state threaded through the call atoms); the returned term, the final state, the destination buffer, the number of "
        "calls and the absence of any other effect must be identical to the row of the projection table built with the same call atoms; "
        "(R7) additionally each fill_bytes of the xoshiro family, XorShiftRng and JitterRng is evaluated with rand_core's helper inlined "
        "and only the type's own next_u32/next_u64 opaque, on destinations of every constant length 0..=17 (thorough 0..=40), and "
        "compared byte for byte with the table row n/8 x next_u64, then next_u64 (tail 5..7) or next_u32 (tail 1..4)")
EXPLANATION = ("Decides each generator's own choice of half, order, call count and delegation target (the part of the property that "
               "lives in this repository). What rand_core's fill_bytes_via_next does is re-derived for the listed constant lengths only "
               "(R7); a hand-written fill_bytes that is not a plain delegation is decided for those lengths only. What BlockRng does "
               "across refills is the dependency's documented behaviour and is not re-derived here.")

U32GENS = ["Xoroshiro64Star", "Xoroshiro64StarStar", "Xoshiro128Plus", "Xoshiro128PlusPlus", "Xoshiro128StarStar"]
U64_UPPER = ["Xoroshiro128Plus", "Xoshiro256Plus", "Xoshiro256PlusPlus", "Xoshiro256StarStar", "Xoshiro512Plus", "Xoshiro512PlusPlus", "Xoshiro512StarStar"]
U64_LOWER = ["Xoroshiro128PlusPlus", "Xoroshiro128StarStar"]
FILL_VIA = "rand_core::impls::fill_bytes_via_next"


def run_with_opaque(g, key, opaque_defs=(), opaque_keys=(), extra=None):
    ev = g.crate.evaluator()
    for d in opaque_defs:
        ev.no_inline.add(d)
    for k in opaque_keys:
        ev.no_inline.add(k)
    st = State()
    ref, leaves, oid = sym_self(ev, st, g.tyid, "s")
    args = [ref]
    dest_oid = None
    if extra == "dest":
        d, dest_oid = sym_slice(ev, st)
        args.append(d)
    ret = ev.call_body(st, key, args)
    return ev, st, ret, oid, dest_oid


def expected_state(g, build):
    """run `build(ev, st, selfref, destref)` on a fresh identical symbolic state"""
    ev = g.crate.evaluator()
    st = State()
    ref, leaves, oid = sym_self(ev, st, g.tyid, "s")
    d, dest_oid = sym_slice(ev, st)
    ret = build(ev, st, ref, d)
    return ev, st, ret, oid, dest_oid


def compare(chk, inst, body, got, exp, ncalls_exp):
    ev, st, ret, oid, doid = got
    ev2, st2, ret2, oid2, doid2 = exp
    where = body["span"][0]
    ok = same_value(ret, ret2)
    chk.ob("R1", inst + "|returned value", ok, "" if ok else "found %s expected %s" % (show(ret), show(ret2)), where=where,
           sample={"obligation": inst, "returned": show(ret)})
    ok = same_value(st.objs[oid], st2.objs[oid2])
    chk.ob("R2", inst + "|final generator state", ok,
           "" if ok else "state after the call is not the state left by the required call sequence: found %s expected %s" % (
               show(st.objs[oid]), show(st2.objs[oid2])), where=where)
    if doid is not None:
        ok = same_value(st.objs[doid], st2.objs[doid2])
        chk.ob("R3", inst + "|destination buffer", ok, "" if ok else "dest is not what the delegate leaves", where=where)
    n = len(ev.calls)
    chk.ob("R4", inst + "|call count", n == ncalls_exp, "found %d opaque call(s) %s, table requires %d" % (
        n, [c[1] for c in ev.calls], ncalls_exp), where=where, nontrivial=False)
    ok = st.world is st2.world
    chk.ob("R5", inst + "|no other effect", ok, "" if ok else "an unlisted side effect occurs", where=where, nontrivial=False)


def show(v):
    if isinstance(v, T.T):
        return T.show(v, 5)
    if isinstance(v, (Struct, ArrV)):
        return "[" + ", ".join(T.show(x, 3) if isinstance(x, T.T) else repr(x) for x in flat_leaves(v)[:8]) + "]"
    return repr(v)


def check_pair(chk, g, meth, via, proj, cnt):
    """g::meth must equal proj(results of calls to g::via)"""
    key = g.method(RNGCORE, meth)
    vkey = g.method(RNGCORE, via)
    body = g.crate.body(key)
    chk.body(key)
    inst = "%s::%s" % (g.ident, meth)
    try:
        got = run_with_opaque(g, key, opaque_keys=[vkey])
    except (Unsupported, SymbolicLoop, Diverged) as e:
        chk.ob("R1", inst, False, "projection not established: %s" % e, where=body["span"][0])
        return

    def build(ev, st, selfref, dest):
        rty = ty_id(ev, "u32" if via == "next_u32" else "u64")
        sty = ref_ty(ev, g.tyid)
        rs = [synth_call(ev, st, vkey, [selfref], [sty], rty) for _ in range(cnt)]
        return proj(rs)
    tr = Trial()
    compare(tr, inst, body, got, expected_state(g, build), cnt)
    if not tr.ok() and not got[0].calls:
        # a body that produces the words itself instead of calling the other method: compare with that method evaluated in place
        try:
            got2 = run_with_opaque(g, key)
            exp2 = expected_state(g, lambda ev, st, selfref, dest: proj([ev.call_body(st, vkey, [selfref]) for _ in range(cnt)]))
            ok = same_value(got2[2], exp2[2]) and same_value(got2[1].objs[got2[3]], exp2[1].objs[exp2[3]]) and got2[1].world is exp2[1].world \
                and not got2[0].calls and not exp2[0].calls
        except (Unsupported, SymbolicLoop, Diverged):
            ok = False
        if ok:
            chk.ob("R1", inst + "|hand-written (no call of %s): value and final state equal those of %d %s call(s) evaluated in place" % (via, cnt, via),
                   True, "", where=body["span"][0], sample={"obligation": inst, "returned": show(got2[2])})
            return
    tr.replay(chk)


def check_delegate(chk, g, meth, target_def, target_key_fn, extra=None):
    """g::meth must be exactly one call of the delegate on (whole self, whole dest) returning its value"""
    key = g.method(RNGCORE, meth)
    body = g.crate.body(key)
    chk.body(key)
    inst = "%s::%s" % (g.ident, meth)
    try:
        got = run_with_opaque(g, key, opaque_defs=[target_def], extra=extra)
    except (Unsupported, SymbolicLoop) as e:
        chk.ob("R1", inst, False, "delegation not established: %s" % e, where=body["span"][0])
        return
    ev = got[0]
    names = [c[1] for c in ev.calls]
    tkey = target_key_fn(names)
    if tkey is None:
        chk.ob("R1", inst + "|delegate", False, "no call to %s found (calls: %s)" % (target_def, names), where=body["span"][0])
        return

    def build(ev2, st, selfref, dest):
        sty = ref_ty(ev2, g.tyid)
        args, tys = [selfref], [sty]
        if extra == "dest":
            args.append(dest)
            tys.append(None)
        rty = {"next_u32": ty_id(ev2, "u32"), "next_u64": ty_id(ev2, "u64"), "fill_bytes": ty_id(ev2, "()")}[meth]
        return synth_call(ev2, st, tkey, args, tys, rty)
    exp = expected_state(g, build)
    if extra != "dest":
        got = got[:4] + (None,)
    compare(chk, inst, body, got, exp, 1)


class Trial(object):
    """collects obligations so that a failed delegation identity can fall back to the bounded projection rule"""

    def __init__(self):
        self.obs = []

    def ob(self, *a, **k):
        self.obs.append((a, k))

    def body(self, k):
        pass

    def ok(self):
        return all(a[2] for a, k in self.obs)

    def replay(self, chk):
        for a, k in self.obs:
            chk.ob(*a, **k)


def fill_spec(ev, st, g, selfref, n, inline=False):
    """the property's table row: n/8 next_u64 results, then one next_u64 (tail 5..7) or one next_u32 (tail 1..4);
    the word calls are opaque atoms, or (inline) the type's own methods evaluated in place"""
    k32, k64 = g.method(RNGCORE, "next_u32"), g.method(RNGCORE, "next_u64")
    sty = ref_ty(ev, g.tyid)
    out = []
    if inline:
        synth = lambda ev_, st_, key, args, tys, dty: ev_.call_body(st_, key, list(args))
    else:
        synth = synth_call
    for _ in range(n // 8):
        w = synth(ev, st, k64, [selfref], [sty], ty_id(ev, "u64"))
        out.extend(T.byte_of(w, i) for i in range(8))
    t = n % 8
    if t > 4:
        w = synth(ev, st, k64, [selfref], [sty], ty_id(ev, "u64"))
        out.extend(T.byte_of(w, i) for i in range(t))
    elif t > 0:
        w = synth(ev, st, k32, [selfref], [sty], ty_id(ev, "u32"))
        out.extend(T.byte_of(w, i) for i in range(t))
    return out, n // 8 + (1 if t else 0)


def inlined_fill_differs(g, key, n):
    """-> None if fill_bytes(n), everything inlined, writes the table's bytes and leaves the table's state"""
    try:
        ev = g.crate.evaluator()
        st = State()
        ref, leaves, oid = sym_self(ev, st, g.tyid, "s")
        doid = st.alloc(ArrV(n, 8, None, None, {i: T.sym("dest[%d]" % i, 8) for i in range(n)}), "dest")
        ev.call_body(st, key, [ref, Ref(doid, (), (0, n), True)])
        ev2 = g.crate.evaluator()
        st2 = State()
        ref2, leaves2, oid2 = sym_self(ev2, st2, g.tyid, "s")
        exp, ncalls = fill_spec(ev2, st2, g, ref2, n, inline=True)
    except (Unsupported, SymbolicLoop, Diverged) as e:
        return "not established: %s" % e
    got = [st.objs[doid].get(i) for i in range(n)]
    for i, (a, b) in enumerate(zip(got, exp)):
        if a is not b:
            return "byte %d is %s, the table's words give %s" % (i, T.show(a, 3), T.show(b, 3))
    if not same_value(st.objs[oid], st2.objs[oid2]):
        return "final state differs from the state left by the table's word calls"
    if st.world is not st2.world or ev.calls or ev2.calls:
        return "not established: calls outside the generator"
    return None


def check_fill_bounded(chk, g, lens, opaque_defs=()):
    """R7: the type's own fill_bytes, with everything it calls inlined except the type's own next_u32 / next_u64, evaluated
    on a destination of each constant length"""
    key = g.method(RNGCORE, "fill_bytes")
    k32, k64 = g.method(RNGCORE, "next_u32"), g.method(RNGCORE, "next_u64")
    body = g.crate.body(key)
    where = body["span"][0]
    bad = []
    done = inlined = 0
    for n in lens:
        ev = g.crate.evaluator()
        ev.no_inline.update([k32, k64])
        ev.no_inline.update(opaque_defs)
        st = State()
        ref, leaves, oid = sym_self(ev, st, g.tyid, "s")
        doid = st.alloc(ArrV(n, 8, None, None, {i: T.sym("dest[%d]" % i, 8) for i in range(n)}), "dest")
        try:
            ev.call_body(st, key, [ref, Ref(doid, (), (0, n), True)])
        except (Unsupported, SymbolicLoop, Diverged) as e:
            bad.append("n=%d: not established: %s" % (n, e))
            continue
        ev2 = g.crate.evaluator()
        st2 = State()
        ref2, leaves2, oid2 = sym_self(ev2, st2, g.tyid, "s")
        exp, ncalls = fill_spec(ev2, st2, g, ref2, n)
        got = [st.objs[doid].get(i) for i in range(n)]
        done += 1
        msg = None
        if len(ev.calls) != ncalls:
            msg = "n=%d: %d word call(s) %s, table requires %d" % (n, len(ev.calls), [c[1].split("::")[-1] for c in ev.calls], ncalls)
        elif any(a is not b for a, b in zip(got, exp)):
            i = next(i for i, (a, b) in enumerate(zip(got, exp)) if a is not b)
            msg = "n=%d: byte %d is %s, table requires %s" % (n, i, T.show(got[i], 3), T.show(exp[i], 3))
        elif not same_value(st.objs[oid], st2.objs[oid2]):
            msg = "n=%d: final state differs from the state left by the required calls" % n
        elif st.world is not st2.world:
            msg = "n=%d: an unlisted side effect occurs" % n
        if msg and not opaque_defs:
            # a body that produces the words itself instead of calling next_u32 / next_u64: compare with the word methods
            # evaluated in place (bytes and final state as normal forms)
            m2 = inlined_fill_differs(g, key, n)
            if m2 is None:
                msg = None
                inlined += 1
            elif not m2.startswith("not established"):
                msg = "n=%d: %s" % (n, m2)
        if msg:
            bad.append(msg)
    ok = not bad
    chk.ob("R7", "%s::fill_bytes|bytes, word calls and final state for each length in %d..=%d" % (g.ident, lens[0], lens[-1]), ok,
           "; ".join(bad[:3]), where=where, nontrivial=True,
           sample={"obligation": "%s::fill_bytes bounded" % g.ident, "lengths": done} if g.ident in ("Xoshiro256PlusPlus", "JitterRng") else None)
    return ok, done


def check_fill(chk, g, lens, opaque_defs=()):
    """fill_bytes: the delegation identity decides every length at once; a body that is not a plain delegation is decided by the
    bounded rule R7 alone (and the evidence says so)"""
    fill = lambda names: next((n for n in names if n.startswith(FILL_VIA + "::<")), None)
    tr = Trial()
    check_delegate(tr, g, "fill_bytes", FILL_VIA, fill, extra="dest")
    okb, done = check_fill_bounded(chk, g, lens, opaque_defs)
    if tr.ok():
        tr.replay(chk)
    elif okb:
        key = g.method(RNGCORE, "fill_bytes")
        chk.body(key)
        chk.ob("R1", "%s::fill_bytes|hand-written body (not a plain delegation): decided for lengths %d..=%d only (R7)" % (
            g.ident, lens[0], lens[-1]), True, "", where=g.crate.body(key)["span"][0], nontrivial=False)
    else:
        tr.replay(chk)
    return done


def run(chk, tier):
    xo = Crate("rand_xoshiro")
    xs = Crate("rand_xorshift")
    hc = Crate("rand_hc")
    isaac = Crate("rand_isaac")
    jit = Crate("rand_jitter")
    for c in (xo, xs, hc, isaac, jit):
        chk.config(c.config)
    bodies = 0
    lo_hi = lambda rs: T.bor(T.shl(T.zext(rs[1], 64), 32), T.zext(rs[0], 64))
    upper = lambda rs: T.trunc(T.lshr(rs[0], 32), 32)
    lower = lambda rs: T.trunc(rs[0], 32)
    for ident in U32GENS:
        g = Gen(xo, ident)
        check_pair(chk, g, "next_u64", "next_u32", lo_hi, 2)
        bodies += 1
    g = Gen(xs, "XorShiftRng")
    check_pair(chk, g, "next_u64", "next_u32", lo_hi, 2)
    bodies += 1
    for ident in U64_UPPER:
        check_pair(chk, Gen(xo, ident), "next_u32", "next_u64", upper, 1)
        bodies += 1
    for ident in U64_LOWER:
        check_pair(chk, Gen(xo, ident), "next_u32", "next_u64", lower, 1)
        bodies += 1
    # SplitMix64::next_u32 advances the counter exactly like next_u64 (values: C01.R2)
    g = Gen(xo, "SplitMix64")
    posts = {}
    for m in ("next_u32", "next_u64"):
        key = g.method(RNGCORE, m)
        chk.body(key)
        ev, st, pre, post, ret = g.eval_method(key)
        posts[m] = post
        bodies += 1
    ok = len(posts["next_u32"]) == 1 and posts["next_u32"][0] is posts["next_u64"][0]
    chk.ob("R6", "SplitMix64::next_u32|same counter step as next_u64", ok,
           "" if ok else "found %s vs %s" % (T.show(posts["next_u32"][0]), T.show(posts["next_u64"][0])))
    # fill_bytes = fill_bytes_via_next(self, dest)
    lens = list(range(0, 18)) if tier == "quick" else list(range(0, 41))
    evals = 0
    for ident in list(REF.GENERATORS) + ["SplitMix64"]:
        evals += check_fill(chk, Gen(xo, ident), lens)
        bodies += 1
    evals += check_fill(chk, Gen(xs, "XorShiftRng"), lens)
    bodies += 1
    evals += check_fill(chk, Gen(jit, "JitterRng"), lens, ["rand_jitter::JitterRng::<F>::gen_entropy"])
    bodies += 1
    chk.floor("R7", "fill_bytes evaluations at constant lengths", evals, 17 * len(lens))
    # block generators: pure delegation to BlockRng / BlockRng64 on the wrapped value
    for crate, ident, blk in ((hc, "Hc128Rng", "BlockRng"), (isaac, "IsaacRng", "BlockRng"), (isaac, "Isaac64Rng", "BlockRng64")):
        g = Gen(crate, ident)
        for m in ("next_u32", "next_u64", "fill_bytes"):
            tdef = "<rand_core::block::%s<R> as rand_core::RngCore>::%s" % (blk, m)
            pick = lambda names, blk=blk, m=m: next((n for n in names if ("::%s<" % blk) in n and n.endswith("::" + m)), None)
            check_delegate(chk, g, m, tdef, pick, extra="dest" if m == "fill_bytes" else None)
            bodies += 1
    chk.floor("R0", "RngCore method bodies", bodies, 43)
