"""Shared extraction for the GF(2)-linear generators (C01, C04, C06, C07, C08)."""
from .. import terms as T, alg
from ..harness import Crate, sym_self, flat_leaves, Anchor, State, Ref, Unsupported, SymbolicLoop
from ..ref import xoshiro as REF

RNGCORE = "rand_core::RngCore"
SEEDABLE = "rand_core::SeedableRng"

XOSHIRO_TYPES = list(REF.GENERATORS.keys()) + ["SplitMix64"]


class Gen(object):
    """one generator type with its facts"""

    def __init__(self, crate, ident):
        self.crate = crate
        self.ident = ident
        self.adt = crate.adt_by_ident(ident)
        self.path = self.adt["path"]
        self.tyid = crate.ty_of_adt(self.path)

    def method(self, trait, name):
        return self.crate.method(self.path, trait, name)

    def eval_method(self, key, extra_args=(), ev=None, assume=()):
        ev = ev or self.crate.evaluator()
        st = State()
        st.assume = tuple(assume)
        ref, leaves, oid = sym_self(ev, st, self.tyid, "s")
        ret = ev.call_body(st, key, [ref] + list(extra_args))
        post = flat_leaves(st.objs[oid])
        return ev, st, leaves, post, ret


def step_matrix(pre, post):
    """rows of the transition matrix if post is GF(2)-linear in pre"""
    rows, consts, bad = T.linear_rows(post, pre)
    return rows, consts, bad


def describe_diff(found, expected):
    d = T.diff(found, expected)
    return "%s  [whole term: found %s, expected %s]" % (d, T.show(found, 3), T.show(expected, 3))
