"""C16 - JitterRng hands out every collected 64-bit value at most once, clones included."""
from .. import terms as T, prims as P, sq
from ..harness import (Crate, State, Ref, ArrV, Struct, EnumV, OpaqueV, flat_leaves, Anchor, Unsupported, SymbolicLoop, Diverged,
                       symbolic_args, synth_call, same_value, ref_ty, ty_id)
from .linear import Gen, RNGCORE

RULE = ("typestate on data_half_used (H) by value numbering with gen_entropy kept as an opaque, state-threading call: (R1) the only writers of H "
        "are new_with_timer, clone, next_u32, next_u64; (R2,R3) next_u32 is ite(H, high half of data without any call, low half of one fresh "
        "next_u64 stored to data) and flips H; (R4) next_u64 clears H before exactly one gen_entropy and returns its value; (R5) gen_entropy's "
        "rounds loop runs i in 0..rounds and every iteration passes through at least one timer read; (R6) clone yields H = false; (R7) for "
        "every other output entry point (fill_bytes through rand_core's fill_bytes_via_next, evaluated for each constant length 1..=24) the "
        "bytes produced must not depend on the pending half and a collection must happen; (R8) over every ordered pair of output calls "
        "(next_u32, next_u64, fill_bytes(n)), starting with and without a pending half, no bit of a collected value or of the stored pool is "
        "exposed by two output positions (gen_entropy opaque with its post-condition ret = self.data from C12.R8); (R9) independent of how the "
        "pending half is represented: every sequence of up to 3 output calls after a normalising next_u64, and clone followed by calls on "
        "the clone, is evaluated and each call's outputs and number of collections are compared with the property's model (low half, then "
        "the pending high half without a collection; every other call collects afresh)")
EXPLANATION = ("Decides the half bookkeeping exactly; the quantifier over timer sequences is vacuous for these rules because timer values never "
               "influence H. One known finding (fill_bytes of 1..=4 bytes consumes a pending half by design) is listed in known_findings.json.")

from .jroles import roles as jitter_roles, find_field
GEN = "rand_jitter::JitterRng::<F>::gen_entropy"  # today's name; run() replaces it by the function playing that role
KNOWN_KEY = "C16.R7|rand_jitter::JitterRng<F>::fill_bytes|fill_bytes_via_next tail 1..=4 -> next_u32 with a pending half|no fresh collection"


def field_index(adt, name):
    for i, f in enumerate(adt["variants"][0]["fields"]):
        if f["name"] == name:
            return i
    raise Anchor("field %s not found" % name)


def writers_of_field(crate, adt_path, fidx):
    out = set()
    for key, b in crate.bodies.items():
        if b["krate"] != crate.name:
            continue
        for _, s in sq.iter_stmts(b):
            if s[0] != "a":
                continue
            place = s[1]
            ty = b["locals"][place[0]]
            hit = False
            for e in place[1]:
                t = crate.tys[ty]
                if e[0] == "d":
                    ty = t["to"]
                elif e[0] == "f":
                    if t["k"] == "adt" and t["def"] == adt_path and e[1] == fidx:
                        hit = True
                    ty = e[2]
                elif e[0] in ("i", "c"):
                    ty = t["elem"]
            if hit and place[1] and place[1][-1][0] == "f" and place[1][-1][1] == fidx:
                out.add(b["def"])
            if s[2][0] == "agg" and s[2][1].get("k") == "adt" and s[2][1].get("def") == adt_path:
                out.add(b["def"])
    return out


def sym_jitter(ev, st, g):
    leaves = []
    v = ev.symbolic(g.tyid, "self", leaves)
    oid = st.alloc(v, "self")
    return Ref(oid, (), None, True), oid, v


def run(chk, tier):
    from ..report import Suffixed
    run_config(chk, tier, None)
    # the same with the optional features on (std + log): the logging macros expand to code there
    run_config(Suffixed(chk, " [std+log]"), tier, "jitter-std")


def run_config(chk, tier, config):
    global GEN
    crate = Crate("rand_jitter", config) if config else Crate("rand_jitter")
    crate.neutral_crates = {"log"}  # the log facade gets formatted copies only (that it cannot reach the generator is C19's)
    chk.config(crate.config)
    g = Gen(crate, "JitterRng")
    GEN = jitter_roles(crate)["gen_entropy"]
    iD = find_field(g.adt, "data", "u64")
    try:
        iH = find_field(g.adt, "data_half_used", "bool")  # a renamed flag is still the only bool of the struct
    except Anchor:
        iH = None
    if iH is not None:
        structural(chk, tier, crate, g, iH, iD)
    else:
        chk.ob("R1", "data_half_used|field present", True, "the pending half is no longer kept in a field `data_half_used`: the structural rules "
               "R1-R4 and R6-R8 do not apply to this representation; the bookkeeping is decided by the bounded sequence rule R9 alone",
               nontrivial=False)
        chk.extra["representation_changed"] = True
    rounds_loop(chk, crate, g)
    surface(chk, crate, g, iD)
    sequences(chk, tier, crate, g, iD)



ANALYSED_OPS = {"next_u32", "next_u64", "fill_bytes", "try_next_u32", "try_next_u64", "try_fill_bytes", "clone", "clone_from"}


def surface(chk, crate, g, iD):
    """R10: the bookkeeping is decided for the operations of the sequence rule (next_u32, next_u64, fill_bytes, clone, clone_from).
    (a) a `Copy` impl would duplicate a generator without the reset that `clone` performs; (b) any other public method that
    takes `&mut self` / `self` and reaches gen_entropy or reads the pool hands out collected data outside that analysis"""
    copy = [im for im in crate.impls_of(g.path) if im.get("trait") == "core::marker::Copy"]
    chk.ob("R10", "JitterRng|not Copy (a by-value copy would bypass Clone's reset of the pending half)", not copy, "impl Copy present",
           nontrivial=bool(copy))
    gen_def = GEN
    other = []
    tys = crate.tys
    for im in crate.impls_of(g.path):
        tr = im.get("trait")
        for name, key in sorted(im["methods"].items()):
            if name in ANALYSED_OPS and tr in (RNGCORE, "rand_core::TryRngCore", "core::clone::Clone"):
                continue
            b = crate.bodies.get(key)
            if b is None or b["argc"] < 1 or (tr is None and not b.get("pub", True)):
                continue
            t1 = tys[b["locals"][1]]
            selfish = (t1["k"] == "ref" and t1["mut"] and tys[t1["to"]].get("def") == g.path) or (t1["k"] == "adt" and t1.get("def") == g.path)
            if not selfish:
                continue
            seen, leaves = sq.reachable(crate.bodies, [key], None, crate.tys)
            reaches = any(crate.bodies[k]["def"] == gen_def for k in seen)
            reads_pool = False
            for k in seen:
                bb = crate.bodies[k]
                if bb["krate"] != crate.name:
                    continue
                for _, st_ in sq.iter_stmts(bb):
                    if st_[0] == "a" and _reads_field(crate, bb, st_[2], g.path, iD):
                        reads_pool = True
            if (reaches or reads_pool) and name not in ("gen_entropy",):
                other.append(name)
    # today: timer_stats (reads the pool through lfsr_time), test_timer (the same) - both return timing figures, not pool data
    known = {"timer_stats", "test_timer", "new_with_timer", "new"}
    extra = sorted(set(other) - known)
    chk.ob("R10", "JitterRng|no public operation outside the analysed ones reaches gen_entropy or reads the pool", not extra,
           "not covered by the sequence rule: %s" % extra, sample={"other_pool_touching_methods": sorted(set(other))})


def _reads_field(crate, body, rv, adt_path, fidx):
    """does the rvalue read field fidx of the ADT (through any projection)?"""
    found = [False]

    def place(p):
        ty = body["locals"][p[0]]
        for e in p[1]:
            t = crate.tys[ty]
            if e[0] == "d":
                ty = t["to"]
            elif e[0] == "f":
                if t["k"] == "adt" and t["def"] == adt_path and e[1] == fidx:
                    found[0] = True
                ty = e[2]
            elif e[0] in ("i", "c"):
                ty = t["elem"]

    for o in sq.operands_of_rvalue(rv):
        if o[0] in ("cp", "mv"):
            place(o[1])
    return found[0]


def structural(chk, tier, crate, g, iH, iD):
    adt = g.adt
    # ---- R1
    ws = writers_of_field(crate, g.path, iH)
    allowed = {"rand_jitter::JitterRng::<F>::new_with_timer", "<rand_jitter::JitterRng<F> as core::clone::Clone>::clone",
               "<rand_jitter::JitterRng<F> as rand_core::RngCore>::next_u32", "<rand_jitter::JitterRng<F> as rand_core::RngCore>::next_u64"}
    chk.ob("R1", "data_half_used|writers", ws <= allowed, "writers %s" % sorted(x.split("::")[-1] for x in ws),
           sample={"field": "data_half_used", "writers": sorted(ws)})
    genkey = next((k for k in crate.bodies if crate.bodies[k]["def"] == GEN), None)
    if genkey is None:
        raise Anchor("gen_entropy not found")
    sty_of = lambda ev: ref_ty(ev, g.tyid)

    def fresh():
        ev = crate.evaluator()
        ev.no_inline.add(GEN)
        # gen_entropy returns the value it leaves in `data` (C12.R8) and does not write H (R1): whether the caller stores the
        # returned value into `data` again or not makes no difference
        ev.overrides[genkey] = gen_entropy_override(genkey, iD, iH)
        st = State()
        ref, oid, v = sym_jitter(ev, st, g)
        return ev, st, ref, oid, v

    def setf(st, oid, idx, val):
        fs = list(st.objs[oid].fields)
        fs[idx] = val
        st.objs[oid] = Struct(fs)

    # ---- R4 next_u64
    k64 = g.method(RNGCORE, "next_u64")
    chk.body(k64)
    ev, st, ref, oid, v = fresh()
    ret = ev.call_body(st, k64, [ref])
    ev2, st2, ref2, oid2, v2 = fresh()
    setf(st2, oid2, iH, T.FALSE)
    G = synth_call(ev2, st2, genkey, [ref2], [sty_of(ev2)], ty_id(ev2, "u64"))
    setf(st2, oid2, iD, G)
    setf(st2, oid2, iH, T.FALSE)
    ok = ret is G and same_value(st.objs[oid], st2.objs[oid2]) and len(ev.calls) == 1
    chk.ob("R4", "next_u64|clears H, then exactly one gen_entropy, returns its value", ok,
           "returned %s; calls %s" % (T.show(ret, 3), [c[1].split("::")[-1] for c in ev.calls]), where=crate.bodies[k64]["span"][0],
           sample={"obligation": "next_u64", "returns": T.show(ret, 3)})
    # ---- R2/R3 next_u32
    k32 = g.method(RNGCORE, "next_u32")
    chk.body(k32)
    ev, st, ref, oid, v = fresh()
    H = v.fields[iH]
    data = v.fields[iD]
    ret = ev.call_body(st, k32, [ref])
    # expected: H branch
    evh, sth, refh, oidh, vh = fresh()
    setf(sth, oidh, iH, T.FALSE)
    ret_h = T.trunc(T.lshr(data, 32), 32)
    # expected: not-H branch
    evn, stn, refn, oidn, vn = fresh()
    setf(stn, oidn, iH, T.FALSE)
    Gn = synth_call(evn, stn, genkey, [refn], [sty_of(evn)], ty_id(evn, "u64"))
    setf(stn, oidn, iD, Gn)
    setf(stn, oidn, iH, T.TRUE)
    ret_n = T.trunc(Gn, 32)
    exp_ret = T.ite(H, ret_h, ret_n)
    exp_self = evn.merge_values(H, sth.objs[oidh], stn.objs[oidn])
    okr = ret is exp_ret
    chk.ob("R2", "next_u32|returns ite(H, high half of data, low half of a fresh value)", okr,
           "" if okr else "found %s expected %s" % (T.show(ret, 4), T.show(exp_ret, 4)), where=crate.bodies[k32]["span"][0],
           sample={"obligation": "next_u32 value", "term": T.show(ret, 4)})
    oks = same_value(st.objs[oid], exp_self)
    chk.ob("R3", "next_u32|state: H flips; data unchanged when H, else the fresh value", oks,
           "" if oks else "post-state %s" % [T.show(x, 3) if isinstance(x, T.T) else x for x in st.objs[oid].fields], where=crate.bodies[k32]["span"][0])
    okc = len(ev.calls) == 1 and st.world is T.sym("world0", 1)
    chk.ob("R2", "next_u32|at most one collection, none (and no timer read) when a half is pending", okc,
           "calls %s" % [c[1].split("::")[-1] for c in ev.calls], nontrivial=False)
    # ---- R6 clone
    kcl = crate.method(g.path, "core::clone::Clone", "clone")
    chk.body(kcl)
    ev = crate.evaluator()
    st = State()
    ref, oid, v = sym_jitter(ev, st, g)
    rc = ev.call_body(st, kcl, [ref])
    okcl = isinstance(rc, Struct) and rc.fields[iH] is T.FALSE and rc.fields[iD] is v.fields[iD]
    chk.ob("R6", "clone|the clone has no pending half (H = false)", okcl,
           "clone.data_half_used = %s" % (T.show(rc.fields[iH]) if isinstance(rc, Struct) else rc), where=crate.bodies[kcl]["span"][0])
    # new_with_timer
    knew = next((k for k in crate.bodies if crate.bodies[k]["def"] == "rand_jitter::JitterRng::<F>::new_with_timer"), None)
    if knew:
        ev = crate.evaluator()
        st = State()
        args, objs = symbolic_args(ev, st, crate.bodies[knew])
        rn = ev.call_body(st, knew, args)
        okn = isinstance(rn, Struct) and rn.fields[iH] is T.FALSE
        chk.ob("R6", "new_with_timer|starts with no pending half", okn, "", nontrivial=False)
    # ---- R7 other output entry points: the type's own fill_bytes for constant lengths
    fkey = g.method(RNGCORE, "fill_bytes")
    chk.body(fkey)
    nmax = 24 if tier == "thorough" else 12
    for n in range(1, nmax + 1):
        ev, st, ref, oid, v = fresh()
        H = v.fields[iH]
        data = v.fields[iD]
        dest = ArrV(n, 8, None, None, {i: T.sym("dest[%d]" % i, 8) for i in range(n)})
        doid = st.alloc(dest, "dest")
        try:
            ev.call_body(st, fkey, [ref, Ref(doid, (), (0, n), True)])
        except (Unsupported, SymbolicLoop, Diverged) as e:
            chk.ob("R7", "fill_bytes(%d)" % n, False, "not established: %s" % e)
            continue
        out = st.objs[doid]
        uses_pending = any(direct_dep(out.get(i), data) for i in range(n))
        ok7 = not uses_pending
        if n == 0:
            pass
        chk.ob("R7", "fill_bytes(%d)|output does not contain a pending half" % n, ok7,
               "" if ok7 else "with data_half_used set, the first bytes are the stored high half of `data` (no collection)",
               key=KNOWN_KEY if (not ok7 and n <= 4) else None, where=crate.bodies[g.method(RNGCORE, "fill_bytes")]["span"][0],
               sample={"len": n, "depends_on_pending_half": uses_pending} if n in (4, 5) else None)
    _run_r8(chk, crate, g, genkey, iD, iH, tier)


def rounds_loop(chk, crate, g):
    adt = g.adt
    genkey = next((k for k in crate.bodies if crate.bodies[k]["def"] == GEN), None)
    if genkey is None:
        raise Anchor("gen_entropy not found")
    # ---- R5 gen_entropy rounds loop
    ev = crate.evaluator(max_steps=3000000)
    ev.summarise_loops = True
    ev.unroll_limit = 100
    st = State()
    ref, oid, v = sym_jitter(ev, st, g)
    rounds = v.fields[find_field(adt, "rounds", "u8")]
    ev.call_body(st, genkey, [ref])
    chk.body(genkey)
    recs = [r_ for r_ in ev.loops_log if not r_.closed]  # the loops may live in library combinators (for_each, try_fold) inlined under gen_entropy
    found = None
    for r in recs:
        for (cond, nxt, world, assume) in r.conts:
            for n, wh, init, t, rng in r.vars:
                if isinstance(init, T.T) and init.op == "const" and init.aux == 0 and isinstance(t, T.T):
                    bound = [a for a in assume if a.op == "ult" and a.args[0] is t]
                    if bound and rounds in _atoms(bound[0].args[1]):
                        nv = nxt.get(n)
                        from ..loops import resolve
                        s2 = st.fork()
                        s2.assume = tuple(assume)
                        rv = resolve(ev, s2, nv) if isinstance(nv, T.T) else None
                        one = T.add(t, T.const(1, t.w))
                        # the counter advances by one per iteration (`for _ in 0..rounds`) or by at most one
                        # (`while accepted < rounds { if measured { accepted += 1 } }`)
                        if rv is one or (rv is not None and rv.op == "ite" and {rv.args[1], rv.args[2]} == {one, t}):
                            found = (r, t, bound[0])
                # the same counted downwards: from `rounds`, continued while > 0, decreased by at most one per iteration
                if init is rounds and isinstance(t, T.T):
                    pos = [a for a in assume if (a.op == "ult" and a.args[0].op == "const" and a.args[0].aux == 0 and a.args[1] is t)
                           or a is T.bnot(T.eqz(t))]
                    nv = nxt.get(n)
                    if pos and isinstance(nv, T.T):
                        from ..loops import resolve
                        s2 = st.fork()
                        s2.assume = tuple(assume)
                        rv = resolve(ev, s2, nv)
                        less = T.sub(t, T.const(1, t.w))
                        if rv is less or (rv.op == "ite" and {rv.args[1], rv.args[2]} == {less, t}):
                            found = (r, t, pos[0])
    okl = found is not None
    chk.ob("R5", "gen_entropy|rounds loop: a counter from 0 up to rounds (or from rounds down to 0), moved by at most 1 per iteration", okl, "loop records: %s" % [(r.header, len(r.vars)) for r in recs],
           where=crate.bodies[genkey]["span"][0], sample={"loop_bound": T.show(found[2], 3)} if found else None)
    if okl:
        r = found[0]
        chk.ob("R5", "gen_entropy|every round passes through at least one timer read", r.min_ticks >= 1,
               "minimum timer reads per round on any path: %d" % r.min_ticks, where=crate.bodies[genkey]["span"][0])
        # the number of iterations as a function of the stored round count, composed with what set_rounds(r) stores: at least r
        # iterations for every r the setter accepts (1..=255)
        t, cmp_ = found[1], found[2]
        trips = cmp_.args[1] if (cmp_.op == "ult" and cmp_.args[0] is t) else rounds
        try:
            sdef = sq.find_method(crate, "rand_jitter::JitterRng::<F>::set_rounds", "JitterRng", "set_rounds")
            skey = next((k for k in crate.bodies if crate.bodies[k]["def"] == sdef), None)
            if skey is None:
                raise Anchor("set_rounds not found")
            chk.body(skey)
            ev2 = crate.evaluator()
            st2 = State()
            ref2, oid2, v2 = sym_jitter(ev2, st2, g)
            arg = T.sym("r", 8)
            ev2.call_body(st2, skey, [ref2, arg])
            stored = st2.objs[oid2].fields[find_field(adt, "rounds", "u8")]
            bad = []
            for rv in range(1, 256):
                fv = T.subst(stored, {arg: T.const(rv, 8)}) if isinstance(stored, T.T) else None
                tv = T.subst(trips, {rounds: fv}) if fv is not None else None
                if tv is None or tv.op != "const" or tv.aux < rv:
                    bad.append((rv, T.show(tv, 2) if tv is not None else None))
            chk.ob("R5", "set_rounds(r)|the rounds loop then runs at least r times, for every r in 1..=255", not bad,
                   "r = %s gives %s iteration(s)" % bad[0] if bad else "", where=crate.bodies[skey]["span"][0],
                   sample={"stored": T.show(stored, 2) if isinstance(stored, T.T) else None, "iterations": T.show(trips, 2)})
        except (Anchor, Unsupported, SymbolicLoop, Diverged) as e:
            chk.ob("R5", "set_rounds(r)|rounds loop runs at least r times", False, "not established: %s" % e)


def exposure(t, acc):
    """which bits of which collected values / of the stored pool does the output term t expose directly?
    acc: {atom: [mask, ...]} one mask per output position"""
    pos = {}
    _exposure(t, pos)
    for a, m in pos.items():
        acc.setdefault(a, []).append(m)


def _exposure(t, pos):
    if not isinstance(t, T.T) or t.op == "const":
        return
    c, e = T.aff_parts(t)
    for a, p in e.items():
        if a.op == "ite":  # either arm may be what is handed out
            _exposure(a.args[1], pos)
            _exposure(a.args[2], pos)
            continue
        m = 0
        for j, col in enumerate(T.cols(p, t.w, a.w)):
            if col:
                m |= 1 << j
        pos[a] = pos.get(a, 0) | m


def gen_entropy_override(genkey, iD, iH):
    """gen_entropy kept opaque, with two facts made explicit: it returns self.data (C12.R8) and it is not a writer of
    data_half_used (R1)"""
    def h(ev, st, ctx):
        ref = ctx.args[0]
        h0 = ev.load(st, ref).fields[iH]
        ret = P.opaque_call(ev, st, ctx, "no-inline")
        v = ev.load(st, ref)
        fs = list(v.fields)
        fs[iD] = ret
        fs[iH] = h0
        ev.store(st, ref, Struct(fs))
        return ret
    return h


def check_at_most_once(chk, crate, g, genkey, iD, iH, tier):
    """R8: over every pair of output calls, no bit of a collected 64-bit value (or of the stored pool) is handed out twice"""
    k32, k64, kfb = g.method(RNGCORE, "next_u32"), g.method(RNGCORE, "next_u64"), g.method(RNGCORE, "fill_bytes")
    lens = [1, 4, 5, 8, 12, 16] if tier == "quick" else [1, 2, 3, 4, 5, 7, 8, 9, 12, 13, 16, 20, 24]
    ops = [("next_u32", None), ("next_u64", None)] + [("fill_bytes", n) for n in lens]
    npairs = 0
    for Hval in (False, True):
        for a in ops:
            for b in ops:
                ev = crate.evaluator()
                ev.overrides[genkey] = gen_entropy_override(genkey, iD, iH)
                st = State()
                ref, oid, v = sym_jitter(ev, st, g)
                data = v.fields[iD]
                fs = list(v.fields)
                fs[iH] = T.TRUE if Hval else T.FALSE
                st.objs[oid] = Struct(fs)
                outs = []
                label = []
                try:
                    for name, n in (a, b):
                        if name == "fill_bytes":
                            dest = ArrV(n, 8, None, None, {i: T.sym("dest[%d]" % i, 8) for i in range(n)})
                            doid = st.alloc(dest, "dest")
                            ev.call_body(st, kfb, [ref, Ref(doid, (), (0, n), True)])
                            outs.extend(st.objs[doid].get(i) for i in range(n))
                            label.append("fill_bytes(%d)" % n)
                        else:
                            outs.append(ev.call_body(st, k32 if name == "next_u32" else k64, [ref]))
                            label.append(name)
                except (Unsupported, SymbolicLoop, Diverged) as e:
                    chk.ob("R8", "%s; %s [half pending: %s]" % (a, b, Hval), False, "not established: %s" % e)
                    continue
                npairs += 1
                acc = {}
                for o in outs:
                    exposure(o, acc)
                bad = []
                for atom, masks in acc.items():
                    seen = 0
                    for m in masks:
                        if seen & m:
                            bad.append("%s bits %#x handed out twice" % (T.show(atom, 1), seen & m))
                        seen |= m
                    if atom is data:
                        allowed = (0xFFFFFFFF << 32) if Hval else 0
                        if seen & ~allowed:
                            bad.append("stored pool bits %#x (already handed out earlier) are output again" % (seen & ~allowed & T.mask(64)))
                ok = not bad
                chk.ob("R8", "%s; %s [half pending at start: %s]|every collected bit handed out at most once" % (label[0], label[1], Hval),
                       ok, "; ".join(bad[:2]), where=crate.bodies[kfb]["span"][0], nontrivial=True,
                       sample={"sequence": label, "pending_at_start": Hval, "distinct_values_exposed": len(acc)} if npairs in (3, 40) else None)
    chk.floor("R8", "output-call pairs", npairs, 2 * len(ops) * len(ops))


def direct_dep(t, target):
    """does t depend on `target` other than through the arguments of an opaque call (a fresh collection)?"""
    seen = set()
    stack = [t]
    while stack:
        x = stack.pop()
        if not isinstance(x, T.T) or x.id in seen:
            continue
        seen.add(x.id)
        if x is target:
            return True
        if x.op == "call":
            continue
        if x.op == "ring":
            for mono, _ in x.aux:
                for i in mono:
                    stack.append(T._ATOM[i])
        stack.extend(x.args)
    return False


def _run_r8(chk, crate, g, genkey, iD, iH, tier):
    try:
        check_at_most_once(chk, crate, g, genkey, iD, iH, tier)
    except Anchor as e:
        chk.ob("R8", "at-most-once", False, str(e))


def _atoms(t):
    out = set()
    stack = [t]
    while stack:
        x = stack.pop()
        if not isinstance(x, T.T) or x in out:
            continue
        out.add(x)
        if x.op == "ring":
            for mono, _ in x.aux:
                for i in mono:
                    stack.append(T._ATOM[i])
        stack.extend(x.args)
    return out


# ------------------------------------------------------------------ R9: representation-independent sequence rule
def untouched_by_gen_entropy(crate, g, genkey):
    """fields of JitterRng that gen_entropy (with everything it calls, loops summarised) leaves exactly as they were"""
    ev = crate.evaluator(max_steps=3000000)
    ev.summarise_loops = True
    ev.unroll_limit = 100
    st = State()
    ref, oid, v = sym_jitter(ev, st, g)
    ev.call_body(st, genkey, [ref])
    post = st.objs[oid]
    return [i for i, (a, b) in enumerate(zip(v.fields, post.fields)) if same_value(a, b)]


def run_clone_from(crate, g, genkey, keep, iD, kcf, k32, k64, kfb, pf_dst, pf_src, on_dst):
    """dst and src are two generators (each normalised by a next_u64, then driven by its prefix); after
    dst.clone_from(&src) every call on dst must begin with a fresh collection"""
    ev = crate.evaluator()
    collected = []

    def gen(ev_, st_, ctx):
        r = ctx.args[0]
        before = ev_.load(st_, r)
        ret = P.opaque_call(ev_, st_, ctx, "no-inline")
        after = ev_.load(st_, r)
        fs = list(after.fields)
        for i in keep:
            fs[i] = before.fields[i]
        fs[iD] = ret
        ev_.store(st_, r, Struct(fs))
        collected.append(ret)
        return ret
    ev.overrides[genkey] = gen
    st = State()
    refs = []
    for nm, pf in (("dst", pf_dst), ("src", pf_src)):
        leaves = []
        v = ev.symbolic(g.tyid, nm, leaves)
        oid = st.alloc(v, nm)
        r = Ref(oid, (), None, True)
        ev.call_body(st, k64, [r])
        for name, n in pf:
            ev.call_body(st, k32, [r])
        refs.append(r)
    ev.call_body(st, kcf, [refs[0], Ref(refs[1].obj, ())])
    msgs = []
    for name, n in on_dst:
        c0 = len(collected)
        if name == "fill_bytes":
            doid = st.alloc(ArrV(n, 8, None, None, {i: T.sym("dest[%d]" % i, 8) for i in range(n)}), "dest")
            ev.call_body(st, kfb, [refs[0], Ref(doid, (), (0, n), True)])
        else:
            ev.call_body(st, k32 if name == "next_u32" else k64, [refs[0]])
        if len(collected) == c0:
            msgs.append("after clone_from, %s on the destination performs no collection (it hands out a half that was pending)" % name)
        break
    return msgs


def sequences(chk, tier, crate, g, iD):
    """R9: every sequence of output calls after a normalising next_u64 is compared with the property's model:
         next_u32 with no half pending: one collection G, returns low(G), high(G) becomes pending
         next_u32 with a half pending : no collection, returns the pending half
         next_u64                     : one collection G, returns G, nothing pending
         fill_bytes(n)                : n/8 x next_u64, then next_u64 (tail 5..7) or next_u32 (tail 1..4), truncated
         clone                        : the clone starts with nothing pending
       gen_entropy is opaque: it returns a fresh value, stores it in `data` (C12.R8) and leaves untouched exactly the fields
       that its own evaluation leaves untouched. Only the field `data` is named; how the pending half is represented is not."""
    genkey = next((k for k in crate.bodies if crate.bodies[k]["def"] == GEN), None)
    if genkey is None:
        raise Anchor("gen_entropy not found")
    keep = untouched_by_gen_entropy(crate, g, genkey)
    k32, k64, kfb = g.method(RNGCORE, "next_u32"), g.method(RNGCORE, "next_u64"), g.method(RNGCORE, "fill_bytes")
    kcl = crate.method(g.path, "core::clone::Clone", "clone")
    lens = [1, 4, 5, 8, 12] if tier == "quick" else [1, 2, 3, 4, 5, 7, 8, 9, 12, 16, 20]
    ops = [("next_u32", None), ("next_u64", None)] + [("fill_bytes", n) for n in lens]
    depth = 3 if tier == "quick" else 4
    seqs = [()]
    frontier = [()]
    for _ in range(depth):
        frontier = [sq_ + (o,) for sq_ in frontier for o in ops]
        seqs.extend(frontier)
    seqs = [s_ for s_ in seqs if s_]
    # clone sequences: prefix, clone, then one or two operations on the clone
    prefixes = [(), (("next_u32", None),), (("next_u32", None), ("next_u32", None)), (("fill_bytes", 5),)]
    clone_seqs = [(pf, (o,)) for pf in prefixes for o in ops] + [(pf, (("next_u32", None), ("next_u32", None))) for pf in prefixes]
    nseq = nfail = 0
    where = crate.bodies[k32]["span"][0]

    def run_seq(prefix, on_clone):
        ev = crate.evaluator()
        collected = []

        def gen(ev_, st_, ctx):
            r = ctx.args[0]
            before = ev_.load(st_, r)
            ret = P.opaque_call(ev_, st_, ctx, "no-inline")
            after = ev_.load(st_, r)
            fs = list(after.fields)
            for i in keep:
                fs[i] = before.fields[i]
            fs[iD] = ret
            ev_.store(st_, r, Struct(fs))
            collected.append(ret)
            return ret
        ev.overrides[genkey] = gen
        st = State()
        ref, oid, v = sym_jitter(ev, st, g)
        ev.call_body(st, k64, [ref])  # normalise: whatever was pending is gone
        pending = None
        target = ref

        def apply(name, n, check):
            nonlocal pending
            c0 = len(collected)
            if name == "fill_bytes":
                doid = st.alloc(ArrV(n, 8, None, None, {i: T.sym("dest[%d]" % i, 8) for i in range(n)}), "dest")
                ev.call_body(st, kfb, [target, Ref(doid, (), (0, n), True)])
                got = [st.objs[doid].get(i) for i in range(n)]
            else:
                got = [ev.call_body(st, k32 if name == "next_u32" else k64, [target])]
            new = collected[c0:]
            # model
            exp = []
            need = 0

            def take():
                nonlocal need
                need += 1
                return new[need - 1] if need <= len(new) else None

            def m_u64():
                nonlocal pending
                pending = None
                return take()

            def m_u32():
                nonlocal pending
                if pending is not None:
                    r_, pending = pending, None
                    return r_
                G = take()
                if G is None:
                    return None
                pending = T.trunc(T.lshr(G, 32), 32)
                return T.trunc(G, 32)
            if name == "next_u64":
                exp = [m_u64()]
            elif name == "next_u32":
                exp = [m_u32()]
            else:
                for _ in range(n // 8):
                    G = m_u64()
                    exp.extend((T.byte_of(G, i) if G is not None else None) for i in range(8))
                t = n % 8
                if t > 4:
                    G = m_u64()
                    exp.extend((T.byte_of(G, i) if G is not None else None) for i in range(t))
                elif t > 0:
                    w = m_u32()
                    exp.extend((T.byte_of(w, i) if w is not None else None) for i in range(t))
            if not check:
                return None
            label = name if n is None else "%s(%d)" % (name, n)
            if need != len(new):
                return "%s performs %d collection(s), the model requires %d" % (label, len(new), need)
            for i, (a_, b_) in enumerate(zip(got, exp)):
                if a_ is not b_:
                    return "%s output %d is %s, the model requires %s" % (label, i, T.show(a_, 3) if isinstance(a_, T.T) else a_,
                                                                          T.show(b_, 3) if isinstance(b_, T.T) else b_)
            return None
        msgs = []
        for name, n in prefix:
            m = apply(name, n, True)
            if m:
                msgs.append(m)
        if on_clone is not None:
            rc = ev.call_body(st, kcl, [ref])
            coid = st.alloc(rc, "clone")
            target = Ref(coid, (), None, True)
            pending = None  # the clone must not hold the original's half
            for name, n in on_clone:
                m = apply(name, n, True)
                if m:
                    msgs.append("on the clone: " + m)
        return msgs

    def label_of(sq_):
        return "; ".join(nm if n is None else "%s(%d)" % (nm, n) for nm, n in sq_)
    bad = []
    for sq_ in seqs:
        try:
            msgs = run_seq(sq_, None)
        except (Unsupported, SymbolicLoop, Diverged) as e:
            msgs = ["not established: %s" % e]
        nseq += 1
        if msgs:
            bad.append((sq_, None, msgs[0]))
    for pf, oc in clone_seqs:
        try:
            msgs = run_seq(pf, oc)
        except (Unsupported, SymbolicLoop, Diverged) as e:
            msgs = ["not established: %s" % e]
        nseq += 1
        if msgs:
            bad.append((pf, oc, msgs[0]))
    # one obligation per distinct failure message shape (shortest sequence first), one summary obligation otherwise
    # an overridden clone_from is a way to make a clone as well: whatever the destination held, it must start afresh
    kcf = None
    for im_ in crate.facts["impls"]:
        if im_.get("trait") == "core::clone::Clone" and im_.get("self_adt") == g.path and "clone_from" in im_["methods"]:
            kcf = im_["methods"]["clone_from"]
    if kcf is not None:
        for pf_dst in ((), (("next_u32", None),)):
            for pf_src in ((), (("next_u32", None),)):
                for oc in [(o,) for o in ops[:4]]:
                    nseq += 1
                    try:
                        msgs = run_clone_from(crate, g, genkey, keep, iD, kcf, k32, k64, kfb, pf_dst, pf_src, oc)
                    except (Unsupported, SymbolicLoop, Diverged) as e:
                        msgs = ["not established: %s" % e]
                    if msgs:
                        bad.append((pf_dst + (("clone_from", None),), oc, msgs[0]))
    bad.sort(key=lambda x: (len(x[0]) + (len(x[1]) if x[1] else 0)))
    seen = set()
    for pf, oc, m in bad:
        shape = m.split(" is ")[0]
        if shape in seen:
            continue
        seen.add(shape)
        if len(seen) > 6:
            break
        lab = "next_u64; " + label_of(pf) + ("; clone -> " + label_of(oc) if oc else "")
        chk.ob("R9", "%s|outputs and collections follow the model" % lab, False, m, where=where)
    chk.ob("R9", "all %d call sequences (length <= %d after a normalising next_u64, plus clone sequences)|outputs and collections follow the model" % (
        nseq, depth), not bad, "%d sequence(s) deviate" % len(bad), where=where,
        sample={"sequences": nseq, "operations": [o[0] if o[1] is None else "%s(%d)" % o for o in ops], "fields_untouched_by_gen_entropy": len(keep)})
    chk.floor("R9", "call sequences", nseq, sum(len(ops) ** k_ for k_ in range(1, depth + 1)) + len(clone_seqs))
