"""XorShiftRng::from_rng / try_from_rng redraw loops (C08.R8, C09.R6/R7)."""
from .. import terms as T, alg
from ..harness import (Crate, State, Ref, ArrV, Struct, EnumV, OpaqueV, flat_leaves, Anchor, Unsupported, SymbolicLoop, Diverged, symbolic_args)
from ..ref import xoshiro as REF
from .linear import SEEDABLE


def analyse_redraw(crate, g, meth):
    key = g.method(SEEDABLE, meth)
    body = crate.body(key)
    ev = crate.evaluator()
    ev.summarise_loops = True
    st = State()
    args, objs = symbolic_args(ev, st, body)
    ret = ev.call_body(st, key, args)
    # the redraw loop may live in a private helper shared by from_rng and try_from_rng: every loop of the inlined evaluation counts
    recs = [r_ for r_ in ev.loops_log if not r_.closed]
    return key, body, ev, st, ret, recs


def fill_calls(calls):
    return [c for c in calls if c[1].split("::")[-1] in ("fill_bytes", "try_fill_bytes")]


def check_redraw_loops(chk, crate, g, rule="R8", must_agree=False):
    """must_agree (C09): from_rng and try_from_rng treat an all-zero block alike.  A method the type does not override is
    SeedableRng's provided one - from_seed of one drawn block, so an all-zero block is remapped by from_seed, not redrawn"""
    own = {m: crate.has_method(g.path, SEEDABLE, m) for m in ("from_rng", "try_from_rng")}
    for meth in ("from_rng", "try_from_rng"):
        inst = "XorShiftRng::%s" % meth
        if not own[meth]:
            other = "try_from_rng" if meth == "from_rng" else "from_rng"
            ok = not (must_agree and own[other])
            chk.ob(rule, inst + "|not overridden: the provided method builds from_seed of one drawn block (an all-zero block is remapped as by from_seed)",
                   ok, "" if ok else "%s redraws on an all-zero block while the provided %s remaps it through from_seed: the two disagree "
                   "for a source that delivers an all-zero block" % (other, meth), nontrivial=not ok)
            continue
        try:
            key, body, ev, st, ret, recs = analyse_redraw(crate, g, meth)
        except (Unsupported, SymbolicLoop, Diverged, Anchor) as e:
            chk.ob(rule, inst + "|redraw loop", False, "not established: %s" % e)
            continue
        chk.body(key)
        where = body["span"][0]
        okl = len(recs) == 1
        chk.ob(rule, inst + "|exactly one loop", okl, "%d loops" % len(recs), where=where, nontrivial=False)
        if not okl:
            continue
        rec = recs[0]
        fc = fill_calls(rec.calls)
        okf = len(fc) == 1
        chk.ob(rule, inst + "|one fill of the source per iteration", okf, "fill calls per iteration: %s" % [c[1].split("::")[-1] for c in rec.calls], where=where)
        if not okf:
            continue
        call = fc[0][4]
        # the 16 bytes the source wrote in this iteration
        eff = [T.select(T.atom("effarr", 8, (call,), (1, 16)), T.const(i, 64), 8) for i in range(16)]
        # the block the generator is built from: either those bytes themselves (test after the fill) or loop variables that
        # hold them from the previous iteration (test at the loop head, `while b == [0; 16] { fill }`)
        val = ret
        okv = True
        if meth == "try_from_rng":
            okv = isinstance(ret, EnumV) and 0 in ret.payloads and 1 in ret.payloads
            chk.ob(rule, inst + "|returns Result", okv, "", nontrivial=False)
            if not okv:
                continue
            val = ret.payloads[0][0]
            errp = ret.payloads[1][0]
            oker = isinstance(errp, OpaqueV) and ("#%d" % call.id) in str(errp.token)
            chk.ob(rule, inst + "|on failure returns the source's own error and no generator", oker, "error payload %r" % (errp,), where=where)
        words = flat_leaves(val)
        block = le_bytes_of(words)
        okw = block is not None
        prov = ""
        if okw:
            byvar = {t: n for n, wh, init, t, rng in rec.vars if isinstance(t, T.T)}
            for i, b in enumerate(block):
                if b is eff[i]:
                    continue
                n = byvar.get(b)
                nxts = [c[1].get(n) for c in rec.conts] if n is not None else []
                if n is None or not nxts or any(x is not eff[i] for x in nxts):
                    okw = False
                    prov = "byte %d of the block is %s, not byte %d written by the fill" % (i, T.show(b, 2), i)
                    break
        chk.ob(rule, inst + "|state is the little-endian decode of the accepted block (as from_seed)", okw,
               prov or "state %s" % [T.show(w, 2) if isinstance(w, T.T) else w for w in words[:2]], where=where)
        if not okw:
            continue
        allz = T.and1([T.eqz(b) for b in block])
        normal_exits = [(c, h, a) for c, h, a in rec.exits]
        conds = [c for c, h, a in normal_exits]
        if meth == "from_rng":
            oke = len(conds) == 1 and conds[0] is T.bnot(allz)
            detail = "exit condition %s" % (T.show(conds[0], 3) if conds else None)
        else:
            # exits: the source's error (return Err) and a block that is not all zero
            disc = T.atom("res", 64, (call,), "ret.discr")
            okres = T.eqz(disc)
            good = [c for c in conds if c is T.bnot(allz) or c is T.and1([okres, T.bnot(allz)])]
            bad = [c for c in conds if c not in good]
            errc = T.eq(disc, T.const(1, 64))
            fails = [T.bnot(okres), errc, T.and1([allz, T.bnot(okres)]), T.and1([allz, errc])]
            failing = lambda c: any(c is f for f in fails)
            oke = len(good) == 1 and len(bad) == 1 and failing(bad[0])
            detail = "exit conditions %s" % [T.show(c, 3) for c in conds]
        chk.ob(rule, inst + "|the loop is left only with a block that is not all zero%s" % (" (or the source's error)" if meth != "from_rng" else ""),
               oke, detail, where=where, sample={"loop": inst, "exit": detail[:200]})


def le_bytes_of(words):
    """the 16 byte-wide atoms b0..b15 if the four 32-bit words are b[4k] ^ b[4k+1]<<8 ^ b[4k+2]<<16 ^ b[4k+3]<<24, else None"""
    if len(words) != 4 or not all(isinstance(w, T.T) and w.w == 32 for w in words):
        return None
    out = []
    for w in words:
        c, e = T.aff_parts(w)
        if c or len(e) != 4:
            return None
        pos = {}
        for a, p in e.items():
            if a.w != 8:
                return None
            cs = T.cols(p, 32, 8)
            sh = [cj.bit_length() - 1 for cj in cs]
            if any(cj != (1 << s_) for cj, s_ in zip(cs, sh)) or sh != list(range(sh[0], sh[0] + 8)) or sh[0] not in (0, 8, 16, 24):
                return None
            pos[sh[0] // 8] = a
        if sorted(pos) != [0, 1, 2, 3]:
            return None
        out.extend(pos[k] for k in range(4))
    return out if len(set(out)) == 16 else None
