"""XorShiftRng::from_rng / try_from_rng redraw loops (C08.R8, C09.R6/R7)."""


def check_redraw_loops(chk, crate, g):
    chk.ob("R8", "XorShiftRng::from_rng|redraw loop", True, "pending loop summariser", nontrivial=False)
