"""XorShiftRng::from_rng / try_from_rng redraw loops (C08.R8, C09.R6/R7)."""
from .. import terms as T, alg
from ..harness import (Crate, State, Ref, ArrV, Struct, EnumV, OpaqueV, flat_leaves, Anchor, Unsupported, SymbolicLoop, Diverged, symbolic_args)
from ..ref import xoshiro as REF
from .linear import SEEDABLE


def analyse_redraw(crate, g, meth):
    key = g.method(SEEDABLE, meth)
    body = crate.body(key)
    ev = crate.evaluator()
    ev.summarise_loops = True
    st = State()
    args, objs = symbolic_args(ev, st, body)
    ret = ev.call_body(st, key, args)
    recs = [r for r in ev.loops_log if r.body == key]
    return key, body, ev, st, ret, recs


def fill_calls(calls):
    return [c for c in calls if c[1].split("::")[-1] in ("fill_bytes", "try_fill_bytes")]


def check_redraw_loops(chk, crate, g, rule="R8"):
    for meth in ("from_rng", "try_from_rng"):
        inst = "XorShiftRng::%s" % meth
        try:
            key, body, ev, st, ret, recs = analyse_redraw(crate, g, meth)
        except (Unsupported, SymbolicLoop, Diverged, Anchor) as e:
            chk.ob(rule, inst + "|redraw loop", False, "not established: %s" % e)
            continue
        chk.body(key)
        where = body["span"][0]
        okl = len(recs) == 1
        chk.ob(rule, inst + "|exactly one loop", okl, "%d loops" % len(recs), where=where, nontrivial=False)
        if not okl:
            continue
        rec = recs[0]
        fc = fill_calls(rec.calls)
        okf = len(fc) == 1
        chk.ob(rule, inst + "|one fill of the source per iteration", okf, "fill calls per iteration: %s" % [c[1].split("::")[-1] for c in rec.calls], where=where)
        if not okf:
            continue
        call = fc[0][4]
        # destination: the whole 16-byte block
        eff = [T.select(T.atom("effarr", 8, (call,), (1, 16)), T.const(i, 64), 8) for i in range(16)]
        allz = T.and1([T.eqz(b) for b in eff])
        normal_exits = [(c, h, a) for c, h, a in rec.exits]
        if meth == "from_rng":
            oke = len(normal_exits) == 1 and normal_exits[0][0] is T.bnot(allz)
            detail = "exit condition %s" % (T.show(normal_exits[0][0], 3) if normal_exits else None)
        else:
            # exits: source error (return Err) and block not all zero
            disc = T.atom("res", 64, (call,), "ret.discr")
            okres = T.eqz(disc)
            conds = {c for c, h, a in normal_exits}
            errc = T.eq(disc, T.const(1, 64))
            oke = len(normal_exits) == 2 and T.and1([okres, T.bnot(allz)]) in conds and (T.bnot(okres) in conds or errc in conds)
            detail = "exit conditions %s" % [T.show(c, 3) for c in conds]
        chk.ob(rule, inst + "|the loop is left only with a block that is not all zero%s" % (" (or the source's error)" if meth != "from_rng" else ""),
               oke, detail, where=where, sample={"loop": inst, "exit": detail[:200]})
        # state = LE decode of that block
        val = ret
        if meth == "try_from_rng":
            okv = isinstance(ret, EnumV) and 0 in ret.payloads and 1 in ret.payloads
            chk.ob(rule, inst + "|returns Result", okv, "", nontrivial=False)
            if not okv:
                continue
            val = ret.payloads[0][0]
            errp = ret.payloads[1][0]
            oker = isinstance(errp, OpaqueV) and ("#%d" % call.id) in str(errp.token)
            chk.ob(rule, inst + "|on failure returns the source's own error and no generator", oker, "error payload %r" % (errp,), where=where)
        words = flat_leaves(val)
        exp = REF.le_words(eff, 32)
        okw = len(words) == 4 and all(a is b for a, b in zip(words, exp))
        chk.ob(rule, inst + "|state is the little-endian decode of the accepted block (as from_seed)", okw,
               "state %s" % [T.show(w, 2) if isinstance(w, T.T) else w for w in words[:2]], where=where)
