"""C17 - Debug output of state-hiding generators never depends on seed or state."""
from .. import terms as T, prims as P
from ..harness import Crate, State, Ref, ArrV, Struct, OpaqueV, Anchor, Unsupported, SymbolicLoop

RULE = ("the Debug::fmt body of each state-hiding type is value-numbered on a symbolic self with an opaque Formatter; trait objects handed to "
        "the formatter are followed into their own fmt bodies (vtable resolved by the compiler, including rand_core's BlockRng); every value that "
        "finally reaches a core formatting sink is collected and its symbol set must be within the allowed public set of the type "
        "(empty for XorShiftRng, the three cores and JitterRng; {index, half_used} for the BlockRng wrappers)")
EXPLANATION = ("Taint rule over the resolved program: what is not passed to the formatter cannot be printed. Both {:?} and {:#?} go through the "
               "same fmt body. core::fmt itself is trusted to print only what it is given.")

FMT = "core::fmt::Debug"
TARGETS = [
    ("rand_xorshift", "XorShiftRng", set()),
    ("rand_hc", "Hc128Core", set()),
    ("rand_hc", "Hc128Rng", {"index"}),
    ("rand_isaac", "IsaacCore", set()),
    ("rand_isaac", "IsaacRng", {"index"}),
    ("rand_isaac", "Isaac64Core", set()),
    ("rand_isaac", "Isaac64Rng", {"index", "half_used"}),
    ("rand_jitter", "JitterRng", set()),
]
FORMAT_TRAITS = ("core::fmt::Display", "core::fmt::LowerHex", "core::fmt::UpperHex", "core::fmt::Binary", "core::fmt::Octal",
                 "core::fmt::LowerExp", "core::fmt::UpperExp", "core::fmt::Pointer")


def taint_of(ev, st, names):
    out = set()
    for n in names:
        n = str(n)
        if n.startswith("self"):
            leaf = n[5:] if n.startswith("self.") else n[4:]
            out.add(leaf.split("[")[0].split(".")[-1] if leaf else "self")
        elif n.startswith("opaque:self"):
            out.add(n[len("opaque:self."):] or "self")
    return out


def run(chk, tier):
    cnt = 0
    crates = {}
    for cname, ident, allowed in TARGETS:
        crate = crates.get(cname) or Crate(cname)
        crates[cname] = crate
        chk.config(crate.config)
        try:
            adt = crate.adt_by_ident(ident)
            path = adt["path"]
            key = crate.method(path, FMT, "fmt")
            body = crate.body(key)
            chk.body(key)
            tyid = crate.ty_of_adt(path)
            ev = crate.evaluator()
            st = State()
            v = ev.symbolic(tyid, "self", [])
            oid = st.alloc(v, "self")
            fmtr = Ref(st.alloc(OpaqueV(None, "formatter"), "fmt"), (), None, True)
            ev.call_body(st, key, [Ref(oid, ()), fmtr])
        except (Anchor, Unsupported, SymbolicLoop) as e:
            chk.ob("R1", "%s::fmt" % ident, False, "not established: %s" % e)
            continue
        cnt += 1
        leaked = {}
        for caller, sink, what, val, span in ev.fmt_calls:
            tn = taint_of(ev, st, val)
            for n in tn:
                if n not in allowed:
                    leaked.setdefault(n, []).append("%s via %s at %s" % (what, sink.split("::")[-1], span[0]))
        ok = not leaked
        chk.ob("R1", "%s::fmt|no state reaches the formatter%s" % (ident, (" except " + ",".join(sorted(allowed))) if allowed else ""), ok,
               "" if ok else "state passed to the formatter: %s" % {k: v[:2] for k, v in leaked.items()}, where=body["span"][0],
               sample={"type": ident, "sinks": len(ev.fmt_calls), "followed_trait_objects": [f[1] for f in ev.fmt_followed],
                       "allowed": sorted(allowed)})
        # also: nothing of self is written by fmt
        chk.ob("R1", "%s::fmt|formatter sinks reached" % ident, len(ev.calls) >= 1, "%d formatter calls" % len(ev.calls), nontrivial=False)
        # R4: no other formatting trait on the state type
        others = [im["trait"] for im in crate.impls_of(path) if im.get("trait") in FORMAT_TRAITS]
        chk.ob("R4", "%s|no Display/LowerHex/... impl" % ident, not others, "formatting impls: %s" % others, nontrivial=False)
    chk.floor("R0", "Debug impls of state-hiding types", cnt, 8)
