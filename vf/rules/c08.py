"""C08 - no seeding path yields the all-zero state; zero seeds are remapped as documented."""
from .. import terms as T, alg
from ..harness import (Crate, State, Ref, ArrV, Struct, flat_leaves, Anchor, Unsupported, SymbolicLoop, Diverged, symbolic_args, sym_self, synth_call,
                       same_value, ref_ty, ty_id)
from ..ref import xoshiro as REF
from .linear import Gen, RNGCORE, SEEDABLE, describe_diff
from .c01 import eval_from_seed, allzero

RULE = ("from_seed value-numbered on a symbolic seed must be ite(AllZero(whole seed), <Self>::seed_from_u64(0), bijective LE decode) (R1,R2); "
        "seed_from_u64(x) must be Self::from_rng(&mut SplitMix64{x}) (R3); from_rng/try_from_rng are rand_core's defaults (R4); "
        "the SplitMix64 output function extracted from the code is a chain of bijections of the counter, PHI != 0, and the constant-folded "
        "zero path ends in a non-zero state (R5); the generator ADTs are constructed only in from_seed / derived Clone / derived Deserialize and "
        "have no public field (R6); XorShiftRng: zero seed -> non-zero constant, from_rng/try_from_rng redraw while the block is all zero (R7,R8)")
EXPLANATION = ("Structural and algebraic necessary-and-sufficient conditions on this repository's side; the default from_rng/try_from_rng of "
               "rand_core (fill one seed, call from_seed) is the dependency's documented behaviour.")


def origin_call(v):
    """the opaque call atom a returned leaf comes from (scalar result or element of a returned array)"""
    if not isinstance(v, T.T):
        return None
    if v.op == "res" and v.args[0].op == "call":
        return v.args[0]
    if v.op == "select" and v.args[0].op == "resarr" and v.args[0].args[0].op == "call" and v.args[1].op == "const":
        return v.args[0].args[0]
    return None


def bijection_chain(t, x, depth=0):
    """is t a bijective function of the atom x built from: rank-w linear maps of one atom, odd multiplications, constant additions"""
    if t is x:
        return True, depth
    if t.op == "aff" and len(t.args) == 1 and t.args[0].w == t.w:
        rows, consts, bad = T.linear_rows([t], [t.args[0]])
        if rows is not None and alg.rank(rows) == t.w:
            return bijection_chain(t.args[0], x, depth + 1)
        return False, depth
    if t.op == "ring":
        monos = [(m, c) for m, c in t.aux if m != ()]
        if len(monos) == 1 and len(monos[0][0]) == 1 and monos[0][1] & 1:
            return bijection_chain(T._ATOM[monos[0][0][0]], x, depth + 1)
    return False, depth


def check_xoshiro_type(chk, crate, g, ref, serde_crate=None):
    ident = g.ident
    w, n = ref["w"], ref["n"]
    # ---- R1: zero guard
    ev, st, seedb, R, body, key = eval_from_seed(g)
    chk.body(key)
    where = body["span"][0]
    zeros = [T.eq(b, T.const(0, 8)) for b in seedb]
    evz, stz, seedz, Z, _, _ = eval_from_seed(g, lambda lv: [T.eq(b, T.const(0, 8)) for b in lv] + [allzero(lv)])
    evn, stn, seedn, D, _, _ = eval_from_seed(g, lambda lv: [T.bnot(allzero(lv))])
    zl, dl, rl = flat_leaves(Z), flat_leaves(D), flat_leaves(R)
    # the zero path is the return value of <Self as SeedableRng>::seed_from_u64(0)
    calls = [origin_call(z) for z in zl]
    okz = len(zl) == n and all(c is not None for c in calls)
    callname = calls[0].aux if okz else None
    okz = okz and callname == "<%s as rand_core::SeedableRng>::seed_from_u64" % g.path
    okz = okz and all(c is calls[0] for c in calls) and calls[0].args == (T.const(0, 64),)
    okz = okz and len({z.id for z in zl}) == n  # n distinct words of that one result
    chk.ob("R1", "%s::from_seed|all-zero seed returns Self::seed_from_u64(0)" % ident, okz,
           "" if okz else "zero path yields %s" % [T.show(z, 3) for z in zl[:2]], where=where,
           sample={"obligation": "%s zero path" % ident, "value": T.show(zl[0], 3) if zl else None})
    cond = allzero(seedb)
    exp = evn.merge_values(cond, Z, D)
    okr = same_value(R, exp)
    chk.ob("R1", "%s::from_seed|guard is AllZero(whole seed) and dominates the decode" % ident, okr,
           "" if okr else "from_seed is not ite(AllZero(seed[0..%d]), seed_from_u64(0), decode): found %s" % (len(seedb), [T.show(x, 3) for x in rl[:2]]),
           where=where)
    # ---- R2: decode is a bijection seed -> state
    rows, consts, bad = T.linear_rows(dl, seedb) if all(isinstance(x, T.T) for x in dl) else (None, None, None)
    okb = rows is not None and alg.rank(rows) == 8 * len(seedb) == n * w
    chk.ob("R2", "%s::from_seed|non-zero seeds are used verbatim (decode has rank %d)" % (ident, n * w), okb,
           "" if okb else "decode seed->state is not a bijection", where=where)
    # ---- R3: seed_from_u64(x) == Self::from_rng(&mut SplitMix64::seed_from_u64(x))
    skey = g.method(SEEDABLE, "seed_from_u64")
    sbody = crate.body(skey)
    chk.body(skey)
    ev3 = crate.evaluator()
    ev3.no_inline.add("rand_core::SeedableRng::from_rng")
    st3 = State()
    x = T.sym("x", 64)
    r3 = ev3.call_body(st3, skey, [x])
    names = [c[1] for c in ev3.calls]
    want = "<%s as rand_core::SeedableRng>::from_rng::<rand_xoshiro::splitmix64::SplitMix64>" % g.path
    ok3 = names == [want]
    if ok3:
        call = ev3.calls[0][4]
        ok3 = call.args == (x,)  # the SplitMix64 handed over has state x
        l3 = flat_leaves(r3)
        ok3 = ok3 and all(origin_call(v) is call for v in l3) and len(l3) == n and len({v.id for v in l3}) == n
    chk.ob("R3", "%s::seed_from_u64|is from_rng(SplitMix64 with state x)" % ident, ok3,
           "" if ok3 else "calls: %s" % names, where=sbody["span"][0])
    # ---- R4: defaults not overridden
    im = [i for i in crate.impls_of(g.path, SEEDABLE)]
    ok4 = len(im) == 1 and "from_rng" in im[0]["inherited"] and "try_from_rng" in im[0]["inherited"]
    chk.ob("R4", "%s|from_rng and try_from_rng are rand_core's defaults" % ident, ok4,
           "" if ok4 else "SeedableRng impl overrides %s" % [m for m in im[0]["methods"]] if im else "no SeedableRng impl",
           nontrivial=False)
    # ---- R6: closed construction
    check_construction(chk, crate, g, {"from_seed", "clone"})
    return dl


def constructors_of(crate, path):
    out = []
    for key, b in crate.bodies.items():
        if b["krate"] != crate.name:
            continue
        for bl in b["blocks"]:
            if bl["cleanup"]:
                continue
            for s in bl["s"]:
                if s[0] == "a" and s[2][0] == "agg" and s[2][1].get("k") == "adt" and s[2][1].get("def") == path:
                    out.append((key, s[3][0]))
    return out


def callers_of(crate, key):
    """bodies of this crate with a call that resolves to `key` (or to its definition)"""
    d = crate.bodies[key]["def"]
    out = set()
    for k2, b in crate.bodies.items():
        if b["krate"] != crate.name:
            continue
        for bl in b["blocks"]:
            t = bl["t"]
            if t[0] == "call" and (t[1].get("res") == key or t[1].get("rdef") == d or t[1].get("def") == d):
                out.add(k2)
    return out


def check_construction(chk, crate, g, allowed_fns):
    cons = constructors_of(crate, g.path)
    pub = {f["path"]: f["pub"] for f in crate.facts["fns"]}

    def acceptable(key, depth=0):
        b = crate.bodies[key]
        fn = b["def"].split("::")[-1]
        if fn in allowed_fns:
            return True
        if "_serde" in key or "Deserialize" in key or "__Visitor" in key:
            return True
        # a private helper (or a closure) is as good as its callers: all of them must be seeding functions themselves
        if depth < 4 and (b["kind"] == "Closure" or pub.get(b["def"]) is False):
            cs = callers_of(crate, key) if b["kind"] != "Closure" else {k for k in crate.bodies if key.startswith(k + "::{closure")}
            return bool(cs) and all(acceptable(c, depth + 1) for c in cs if c != key)
        return False
    bad = []
    for key, sp in cons:
        if not acceptable(key):
            bad.append("%s at %s" % (key, sp))
    chk.ob("R6", "%s|constructed only by from_seed / Clone / Deserialize" % g.ident, not bad and len(cons) >= 1,
           "other construction sites: %s" % bad if bad else "%d construction site(s)" % len(cons), nontrivial=False)
    pubf = [f["name"] for v in g.adt["variants"] for f in v["fields"] if f["pub"]]
    chk.ob("R6", "%s|no public field" % g.ident, not pubf, "public fields: %s" % pubf, nontrivial=False)


def check_splitmix(chk, crate):
    g = Gen(crate, "SplitMix64")
    key = g.method(RNGCORE, "next_u64")
    chk.body(key)
    ev, st, pre, post, ret = g.eval_method(key)
    x = pre[0]
    okc, depth = bijection_chain(ret, post[0]) if len(pre) == 1 else (False, 0)
    chk.ob("R5", "SplitMix64::next_u64|output is a bijection of the advanced counter", okc,
           "chain of %d invertible stages" % depth if okc else "output %s is not a chain of invertible stages of the counter" % T.show(ret, 4),
           sample={"obligation": "SplitMix64 output bijective", "stages": depth})
    adv = T.sub(post[0], x)
    okp = adv.op == "const" and adv.aux != 0
    chk.ob("R5", "SplitMix64|counter advances by a non-zero constant", okp,
           "advance = %s" % T.show(adv), nontrivial=True)
    # seed_from_u64 / from_seed give state = x
    skey = g.method(SEEDABLE, "seed_from_u64")
    ev2 = crate.evaluator()
    st2 = State()
    xs = T.sym("x", 64)
    r = ev2.call_body(st2, skey, [xs])
    oks = flat_leaves(r) == [xs]
    chk.ob("R3", "SplitMix64::seed_from_u64|state is x", oks, "" if oks else "state %s" % [T.show(v) for v in flat_leaves(r)])
    # constant folding of the zero path of the two 8-byte generators: SplitMix64(0).next_u64() != 0
    ev3 = crate.evaluator()
    st3 = State()
    oid = st3.alloc(T.const(0, 64), "sm")
    out0 = ev3.call_body(st3, key, [Ref(oid, (), None, True)])
    okn = isinstance(out0, T.T) and out0.op == "const" and out0.aux != 0
    chk.ob("R5", "SplitMix64|first output from state 0 is a non-zero constant (8-byte seeds: recursion ends after one level)", okn,
           "SplitMix64{0}.next_u64() = %s" % T.show(out0), sample={"obligation": "zero-path constant", "value": T.show(out0)})


def check_zero_path_constant(chk, crate, g, ref):
    """constant-propagate from_seed([0;N]) through seed_from_u64 -> from_rng -> fill_bytes_via_next -> from_seed"""
    key = g.method(SEEDABLE, "from_seed")
    body = crate.body(key)
    ev = crate.evaluator(max_steps=2000000)
    st = State()
    seed_ty = body["locals"][1]
    t = ev.tys[seed_ty]
    nbytes = ref["w"] * ref["n"] // 8
    seed = ev.decode_bytes(bytes(nbytes), seed_ty)
    try:
        r = ev.call_body(st, key, [seed])
    except (Unsupported, SymbolicLoop) as e:
        chk.ob("R5", "%s|zero seed constant-folds to a non-zero state" % g.ident, False, "constant propagation failed: %s" % e, where=body["span"][0])
        return
    ls = flat_leaves(r)
    ok = all(isinstance(v, T.T) and v.op == "const" for v in ls) and any(v.aux for v in ls) and len(ls) == ref["n"]
    chk.ob("R5", "%s|from_seed([0;%d]) constant-folds to a non-zero state" % (g.ident, nbytes), ok,
           "state = %s" % [T.show(v) for v in ls], where=body["span"][0],
           sample={"obligation": "%s zero seed" % g.ident, "state": [T.show(v) for v in ls]})


def check_xorshift(chk):
    crate = Crate("rand_xorshift")
    chk.config(crate.config)
    g = Gen(crate, "XorShiftRng")
    ev, st, seedb, R, body, key = eval_from_seed(g)
    chk.body(key)
    where = body["span"][0]
    evz, stz, _, Z, _, _ = eval_from_seed(g, lambda lv: [T.eq(b, T.const(0, 8)) for b in lv] + [allzero(lv)])
    evn, stn, _, D, _, _ = eval_from_seed(g, lambda lv: [T.bnot(allzero(lv))])
    zl, dl = flat_leaves(Z), flat_leaves(D)
    okz = len(zl) == 4 and all(z.op == "const" and z.aux == 0x0BAD5EED for z in zl)
    chk.ob("R7", "XorShiftRng::from_seed|zero seed -> four words 0x0BAD5EED", okz, "zero path: %s" % [T.show(z) for z in zl], where=where)
    cond = allzero(seedb)
    okr = same_value(R, evn.merge_values(cond, Z, D))
    chk.ob("R7", "XorShiftRng::from_seed|guard is AllZero(whole seed)", okr,
           "" if okr else "from_seed is not ite(AllZero(seed), constant, decode): %s" % [T.show(x, 3) for x in flat_leaves(R)[:2]], where=where)
    rows, consts, bad = T.linear_rows(dl, seedb)
    okb = rows is not None and alg.rank(rows) == 128
    chk.ob("R2", "XorShiftRng::from_seed|non-zero seeds verbatim (rank 128)", okb, "", where=where)
    check_construction(chk, crate, g, {"from_seed", "clone", "from_rng", "try_from_rng"})
    return crate, g



STEPPERS = {"next_u32", "next_u64", "fill_bytes", "try_next_u32", "try_next_u64", "try_fill_bytes", "jump", "long_jump"}


def _from_one_call(x, calls):
    """x is a component of the value returned by one of the calls"""
    t = x
    for _ in range(4):
        if t.op == "res" and any(t.args[0] is c[4] for c in calls):
            return True
        if t.op in ("select", "resarr") and t.args:
            t = t.args[0]
            if t.op == "resarr" and any(t.args[0] is c[4] for c in calls):
                return True
        else:
            return False
    return False


def check_mutators(chk, crate, g, rule="R9"):
    """R9: besides the stepping operations (powers of the engine's step: C07.R4/R5; jumps: C06) nothing reachable through the
    public surface may change the state words other than by a GF(2)-linear bijection - a setter, a reset, `AsMut`, a public
    field would make the all-zero state reachable by safe code.  Every method of the type that takes `&mut self` is
    value-numbered on a symbolic state; public fields and methods handing out `&mut` into the value are reported as such"""
    ident = g.ident
    fields = g.adt["variants"][0]["fields"]
    trows = None
    try:
        from .c07 import engine_of
        from ..ref import xoshiro as XR
        ref_ = XR.GENERATORS.get(ident) or (XR.XORSHIFT if ident == "XorShiftRng" else None)
        if ref_ is not None:
            trows = engine_of(crate, ident, ref_)["rows"]
    except (Anchor, Unsupported, SymbolicLoop):
        trows = None
    pubf = [f["name"] for f in fields if f.get("pub")]
    chk.ob(rule, "%s|no public state field" % ident, not pubf, "public fields: %s" % pubf, nontrivial=bool(pubf))
    n = 0
    tys = crate.tys
    for im in crate.impls_of(g.path):
        tr = im.get("trait")
        if tr == "core::clone::Clone" or (tr or "").endswith("Deserialize"):
            continue  # a copy of another generator of this type (C10) / a restored snapshot (C11)
        for name, key in sorted(im["methods"].items()):
            if name in STEPPERS and tr in (None, RNGCORE, "rand_core::TryRngCore"):
                continue
            b = crate.bodies.get(key)
            if b is None or b["argc"] < 1:
                continue
            if not b.get("pub", True):
                continue  # private helpers (and methods of crate-private traits) are reached through the public operations that use them
            t1 = tys[b["locals"][1]]
            if not (t1["k"] == "ref" and t1["mut"] and tys[t1["to"]]["k"] == "adt" and tys[t1["to"]]["def"] == g.path):
                continue
            n += 1
            chk.body(key)
            where = b["span"][0]
            inst = "%s::%s" % (ident, name)
            rt = tys[b["locals"][0]]
            if rt["k"] in ("ref", "ptr") and rt["mut"]:
                chk.ob(rule, inst + "|does not hand out a mutable reference into the generator", False, "returns %s" % rt["s"], where=where)
                continue
            ev = crate.evaluator()
            # the type's own constructors stay calls: a method may also replace the state by a freshly seeded one (`*self =
            # Self::from_seed(seed)`), which the seeding rules above cover
            ctor_keys = [k_ for im_ in crate.impls_of(g.path) if im_.get("trait") == SEEDABLE for k_ in im_["methods"].values()]
            for k_ in ctor_keys:
                ev.no_inline.add(k_)
            st = State()
            try:
                ref, pre, oid = sym_self(ev, st, g.tyid, "self#state")  # (a name no argument can have)
                args, objs = symbolic_args(ev, st, b)
                ev.call_body(st, key, [ref] + args[1:])
            except (Unsupported, SymbolicLoop, Diverged) as e:
                chk.ob(rule, inst + "|state update", False, "not established: %s" % e, where=where)
                continue
            post = flat_leaves(st.objs[oid])
            if len(post) == len(pre) and all(a is b_ for a, b_ in zip(post, pre)):
                chk.ob(rule, inst + "|does not write the state", True, "", where=where, nontrivial=False)
                continue
            ctor_calls = [c for c in ev.calls if c[1] in ctor_keys or any(c[1].startswith(k_.split("::<")[0]) for k_ in ctor_keys)]
            if ctor_calls and all(isinstance(x, T.T) and x.op in ("res", "select") and _from_one_call(x, ctor_calls) for x in post):
                chk.ob(rule, inst + "|replaces the state by that of a generator built by the type's own seeding functions", True, "", where=where,
                       nontrivial=False)
                continue
            rows, consts, bad = T.linear_rows(post, pre) if all(isinstance(x, T.T) for x in post) else (None, None, None)
            nbits = sum(x.w for x in pre)
            ok = rows is not None and not any(consts) and alg.rank(rows) == nbits
            chk.ob(rule, inst + "|writes the state only by a linear bijection (a non-zero state stays non-zero)", ok,
                   "" if ok else "the new state is not a GF(2)-linear bijection of the old one (first word: %s)" % T.show(post[0], 3),
                   where=where, sample={"type": ident, "method": name})
            if ok and trows is not None:
                # a bijection that commutes with the engine's step T is a power of T (T's minimal polynomial is primitive, C07, so
                # the matrices commuting with T form the field GF(2)[T]): the method moves along the generator's own stream
                comm = alg.matmul(rows, trows) == alg.matmul(trows, rows)
                chk.ob(rule, inst + "|moves along the generator's own stream (its state map commutes with the step)", comm,
                       "" if comm else "the state map does not commute with the engine's step: it is not a power of it", where=where)
    return n


def run(chk, tier):
    crate = Crate("rand_xoshiro")
    chk.config(crate.config)
    cnt = 0
    for ident, ref in REF.GENERATORS.items():
        try:
            g = Gen(crate, ident)
            check_xoshiro_type(chk, crate, g, ref)
            check_zero_path_constant(chk, crate, g, ref)
            check_mutators(chk, crate, g)
            cnt += 1
        except (Anchor, Unsupported, SymbolicLoop) as e:
            chk.ob("R1", "%s|from_seed" % ident, False, "not established: %s" % e)
    try:
        check_splitmix(chk, crate)
    except (Anchor, Unsupported, SymbolicLoop) as e:
        chk.ob("R5", "SplitMix64", False, "not established: %s" % e)
    try:
        xcrate, xg = check_xorshift(chk)
        check_mutators(chk, xcrate, xg)
        cnt += 1
        from .c08_loops import check_redraw_loops
        check_redraw_loops(chk, xcrate, xg, "R8")
    except (Anchor, Unsupported, SymbolicLoop) as e:
        chk.ob("R7", "XorShiftRng", False, "not established: %s" % e)
    chk.floor("R0", "seedable linear generator types", cnt, 15)
