"""C10 - clone() and == are congruences."""
from .. import terms as T
from ..harness import (Crate, State, Ref, ArrV, Struct, EnumV, OpaqueV, flat_leaves, Anchor, Unsupported, SymbolicLoop, Diverged, same_value,
                       symbolic_args)
from .. import prims as P

RULE = ("(R5) BlockRngCore::generate of every block core, on a symbolic core and a symbolic results buffer, leaves a core and results that "
        "do not mention the buffer's old contents (the state a clone copies and == compares is the whole state); every Clone impl of a generator / core / buffer type, value-numbered on a symbolic value, must return a value identical to its "
        "argument in every leaf (R1); every PartialEq::eq, value-numbered on two symbolic values, must be the conjunction of the equalities of "
        "ALL leaves of the type, each compared whole, minus the frozen exception table (R2, R3)")
EXPLANATION = ("Field coverage of clone and == is decided exactly; that futures are functions of the fields only is C19 (no hidden state). "
               "Exception: the == of a wrapper around rand_core's BlockRng / BlockRng64 (Hc128Rng today) may omit the buffer `results` (private "
               "to rand_core and a function of core and read position) but nothing else - index, and half_used for BlockRng64, must be compared.")

CRATES = ["rand_xoshiro", "rand_xorshift", "rand_hc", "rand_isaac"]
SKIP_ADTS = {"rand_jitter::error::TimerError"}
# type -> field names of nested structs that == may leave out, with the reason
EQ_EXCEPTIONS = {"rand_hc::hc128::Hc128Rng": {"results": "buffered words are determined by core (invertible table update) and index"}}


def expected_eq(ev, st, tyid, a, b, skip, elementwise=False):
    """conjunction of whole-leaf equalities following the type structure (large arrays as one array-equality atom, or, with
    `elementwise`, element by element: `a.iter().zip(b).all(|(x, y)| x == y)` is the same comparison)"""
    t = ev.tys[tyid]
    if t["k"] == "adt" and t["adt_kind"] == "struct":
        fs = t["variants"][0]["fields"]
        if len(fs) == 1:
            if fs[0]["name"] in skip:
                return T.TRUE
            return expected_eq(ev, st, fs[0]["ty"], a, b, skip, elementwise)
        parts = []
        for i, f in enumerate(fs):
            if f["name"] in skip:
                continue
            parts.append(expected_eq(ev, st, f["ty"], a.fields[i], b.fields[i], skip, elementwise))
        return T.and1(parts)
    if t["k"] == "tuple":
        return T.and1([expected_eq(ev, st, e, a.fields[i], b.fields[i], skip, elementwise) for i, e in enumerate(t["elems"])])
    if elementwise and isinstance(a, ArrV) and isinstance(b, ArrV) and a.n == b.n:
        return T.and1([P.eq_values(ev, st, a.get(i), b.get(i)) for i in range(a.n)])
    return P.eq_values(ev, st, a, b)


def wraps_block_rng(ev, tyid):
    t = ev.tys[tyid]
    if t["k"] == "adt" and t["adt_kind"] == "struct":
        fs = t["variants"][0]["fields"]
        if len(fs) == 1:
            ft = ev.tys[fs[0]["ty"]]
            return ft["k"] == "adt" and ft.get("def", "").startswith("rand_core::block::BlockRng")
    return False


def check_impl(chk, crate, im):
    tr = im["trait"].split("::")[-1]
    adt = im["self_adt"]
    ident = adt.split("::")[-1]
    tyid = crate.ty_of_adt(adt)
    if tr == "Clone":
        key = im["methods"]["clone"]
        body = crate.body(key)
        chk.body(key)
        ev = crate.evaluator()
        st = State()
        v = ev.symbolic(tyid, "a", [])
        oid = st.alloc(v, "a")
        try:
            r = ev.call_body(st, key, [Ref(oid, ())])
        except (Unsupported, SymbolicLoop) as e:
            chk.ob("R1", "%s::clone" % ident, False, "not established: %s" % e, where=body["span"][0])
            return
        ok = same_value(r, v) and same_value(st.objs[oid], v)
        chk.ob("R1", "%s::clone|%s, copies every leaf" % (ident, "derived" if im["derived"] else "hand-written"), ok,
               "" if ok else "clone result differs from the original in some field", where=body["span"][0],
               sample={"obligation": "%s::clone" % ident, "leaves": len(flat_leaves(v)), "derived": im["derived"]})
        if "clone_from" in im["methods"]:
            # an overridden clone_from must leave the destination identical to the source in every leaf, too
            k2 = im["methods"]["clone_from"]
            b2 = crate.body(k2)
            chk.body(k2)
            ev2 = crate.evaluator()
            st2 = State()
            dst = ev2.symbolic(tyid, "dst", [])
            src = ev2.symbolic(tyid, "src", [])
            od, os_ = st2.alloc(dst, "dst"), st2.alloc(src, "src")
            try:
                ev2.call_body(st2, k2, [Ref(od, (), None, True), Ref(os_, ())])
                ok2 = same_value(st2.objs[od], src) and same_value(st2.objs[os_], src)
                d2 = "" if ok2 else "after clone_from the destination differs from the source in some field"
            except (Unsupported, SymbolicLoop) as e:
                ok2, d2 = False, "not established: %s" % e
            chk.ob("R1", "%s::clone_from|hand-written, copies every leaf" % ident, ok2, d2, where=b2["span"][0])
    elif tr == "PartialEq":
        key = im["methods"]["eq"]
        body = crate.body(key)
        chk.body(key)
        ev = crate.evaluator()
        st = State()
        va = ev.symbolic(tyid, "a", [])
        vb = ev.symbolic(tyid, "b", [])
        oa, ob = st.alloc(va, "a"), st.alloc(vb, "b")
        try:
            r = ev.call_body(st, key, [Ref(oa, ()), Ref(ob, ())])
        except (Unsupported, SymbolicLoop) as e:
            chk.ob("R2", "%s::eq" % ident, False, "not established: %s" % e, where=body["span"][0])
            return
        skip = set()
        exp = expected_eq(ev, st, tyid, va, vb, skip)
        ok = r is exp or r is expected_eq(ev, st, tyid, va, vb, skip, True)
        if not ok and (adt in EQ_EXCEPTIONS or wraps_block_rng(ev, tyid)):
            # a buffered generator may leave out the result buffer, and only that: the buffered words are a function of the core
            # (its block function is invertible) and the read position, which must both be compared
            skip = {"results"}
            exp = expected_eq(ev, st, tyid, va, vb, skip)
            ok = r is exp or r is expected_eq(ev, st, tyid, va, vb, skip, True)
        detail = ""
        if not ok:
            missing = []
            if isinstance(r, T.T):
                want = T.atoms_of(exp)
                have = T.atoms_of(r)
                missing = sorted(x[2:] for x in want - have if str(x).startswith("a."))
                missing = sorted({m.split("[")[0] for m in missing})
            detail = "== is not the conjunction of all field equalities; fields not (wholly) compared: %s" % (missing or "(same fields, different comparison)")
        chk.ob("R2", "%s::eq|%s, covers all fields%s" % (ident, "derived" if im["derived"] else "hand-written",
                                                          (" except " + ",".join(sorted(skip))) if skip else ""), ok, detail,
               where=body["span"][0], sample={"obligation": "%s::eq" % ident, "conjuncts": len(exp.args) if exp.op == "and1" else 1})
        pure = same_value(st.objs[oa], va) and same_value(st.objs[ob], vb)
        chk.ob("R2", "%s::eq|does not modify its arguments" % ident, pure, "", nontrivial=False)



def check_generate_reads_no_buffer(chk, crate):
    """R5: the whole state of a block core is in the core (that is what clone copies and == compares): BlockRngCore::generate,
    value-numbered on a symbolic core and a symbolic results buffer, must leave a core and produce results that do not
    depend on what the buffer held before (the buffer is output only)"""
    n = 0
    for im in crate.facts["impls"]:
        if im.get("trait") != "rand_core::block::BlockRngCore" or "generate" not in im["methods"]:
            continue
        key = im["methods"]["generate"]
        body = crate.body(key)
        chk.body(key)
        ident = (im.get("self_adt") or "?").split("::")[-1]
        ev = crate.evaluator(max_steps=4000000)
        st = State()
        args, objs = symbolic_args(ev, st, body, prefix="arg")
        if crate.name == "rand_hc":
            from .c14 import hc_invariant_self
            hc_invariant_self(ev, st, args, body)  # the class invariant counter = 0 mod 16 (C14 re-proves it at every exit)
        try:
            ev.call_body(st, key, args)
        except (Unsupported, SymbolicLoop, Diverged) as e:
            chk.ob("R5", "%s::generate|results buffer is output only" % ident, False, "not established: %s" % e, where=body["span"][0])
            continue
        n += 1
        rname = body["names"].get("2") or "arg2"
        dep = set()
        for a in args:
            for leaf in flat_leaves(st.objs[a.obj]) if isinstance(a, Ref) else []:
                if isinstance(leaf, T.T):
                    for nm in T.atoms_of(leaf):
                        if str(nm).startswith(rname):
                            dep.add(str(nm))
        chk.ob("R5", "%s::generate|the new core and the results do not depend on the old contents of the results buffer" % ident, not dep,
               "depends on %s" % sorted(dep)[:4], where=body["span"][0], sample={"core": ident, "buffer": rname})
    return n


def run(chk, tier):
    nclone = neq = 0
    for cname in CRATES:
        crate = Crate(cname)
        chk.config(crate.config)
        local_adts = {a["path"] for a in crate.facts["adts"]}
        for im in crate.facts["impls"]:
            tr = im.get("trait")
            if tr not in ("core::clone::Clone", "core::cmp::PartialEq"):
                continue
            adt = im.get("self_adt")
            if adt not in local_adts or adt in SKIP_ADTS:
                continue
            try:
                check_impl(chk, crate, im)
            except Anchor as e:
                chk.ob("anchor", "%s %s" % (tr, adt), False, str(e), nontrivial=False)
            if tr.endswith("Clone"):
                nclone += 1
            else:
                neq += 1
        # every type with PartialEq also has Eq, and vice versa nothing else compares generators
    ngen = 0
    for cname in ("rand_hc", "rand_isaac"):
        ngen += check_generate_reads_no_buffer(chk, Crate(cname))
    chk.floor("R0", "block cores whose generate was analysed", ngen, 3)
    chk.floor("R0", "Clone impls", nclone, 20)  # vacuity guard (23 on the reference tree)
    chk.floor("R0", "PartialEq impls", neq, 17)  # vacuity guard (21 on the reference tree)
