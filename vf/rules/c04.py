"""C04 - XorShiftRng equals Marsaglia's xor128."""
from .. import terms as T
from ..harness import Crate, State, flat_leaves, Anchor, Unsupported, SymbolicLoop
from ..ref import xoshiro as REF
from .linear import Gen, RNGCORE, SEEDABLE, describe_diff
from .c01 import eval_from_seed, allzero, TRUSTED

RULE = ("value numbering of XorShiftRng::next_u32 and ::from_seed; post-state, returned word and seed decode "
        "must be identical (normal-form identity) to the xor128 reference on symbolic state/seed")


def run(chk, tier):
    crate = Crate("rand_xorshift")
    chk.config(crate.config)
    g = Gen(crate, "XorShiftRng")
    ref = REF.XORSHIFT
    key = g.method(RNGCORE, "next_u32")
    body = crate.body(key)
    chk.body(key)
    ev, st, pre, post, ret = g.eval_method(key)
    good = len(pre) == 4 and all(p.w == 32 for p in pre)
    chk.ob("R1", "XorShiftRng::next_u32|state-shape", good, "state words: %s" % [p.w for p in pre], nontrivial=False, where=body["span"][0])
    if good:
        exp = ref["step"](list(pre))
        for i in range(4):
            ok = post[i] is exp[i]
            chk.ob("R1", "XorShiftRng::next_u32|post-state word %d" % i, ok, "" if ok else describe_diff(post[i], exp[i]),
                   where=body["span"][0], sample={"obligation": "post-state word %d" % i, "normal_form": T.show(post[i], 4)})
        ok = ret is exp[3]
        chk.ob("R2", "XorShiftRng::next_u32|output is the new w", ok, "" if ok else describe_diff(ret, exp[3]), where=body["span"][0])
    ev, st, seedb, r, body, key = eval_from_seed(g, lambda lv: [T.bnot(allzero(lv))])
    chk.body(key)
    words = flat_leaves(r)
    exp = REF.le_words(seedb, 32)
    good = len(words) == 4 and len(exp) == 4
    chk.ob("R3", "XorShiftRng::from_seed|shape", good, "seed bytes %d, state words %d" % (len(seedb), len(words)), nontrivial=False, where=body["span"][0])
    if good:
        for i in range(4):
            ok = words[i] is exp[i]
            chk.ob("R3", "XorShiftRng::from_seed|state word %d (non-zero seed)" % i, ok,
                   "" if ok else describe_diff(words[i], exp[i]), where=body["span"][0])
    chk.floor("R0", "obligations", len(chk.obs), 9)  # 12 on the reference tree; vacuity guard
    chk.trusted_base = TRUSTED
