"""C03 - IsaacRng / Isaac64Rng streams equal Jenkins' ISAAC and ISAAC-64."""
from .. import terms as T, sq
from ..harness import (Crate, State, Ref, ArrV, Struct, EnumV, flat_leaves, Anchor, Unsupported, SymbolicLoop, Diverged, symbolic_args, same_value)
from ..ref import isaac as REF, xoshiro as XREF
from .linear import Gen, SEEDABLE

RULE = ("(R1,R2,R5) BlockRngCore::generate of both cores is value-numbered on a symbolic state (mem as a symbolic 256-word array, a, b, c) with "
        "all constant loops unrolled; the new mem, a, b, c and every one of the 256 result slots must be identical (normal forms, including "
        "the data-dependent look-ups as select terms) to the reference isaac()/isaac64() run on the same symbolic state, result slot 255-i "
        "holding the i-th produced word; (R3) init is compared with randinit: the eight start constants must equal golden-ratio scrambled "
        "four times by the reference mixer, and the passes over the seed must give identical memory; (R4) from_seed = randinit(TRUE) on the "
        "little-endian seed words zero-extended, seed_from_u64 = one pass on (x_lo, x_hi | x, 0, ...)")
EXPLANATION = ("One refill block from an arbitrary state equals one reference call, for every state; whole-stream equality follows by induction "
               "over blocks, BlockRng/BlockRng64 handing the slots out in ascending order (dependency). The data-dependent indirections are "
               "compared symbolically, so no particular data is assumed.")


def core_fields(g):
    """indices of (mem, a, b, c): by today's names, else the one array field and the three scalar fields in declaration order"""
    adt = g.adt
    scal = r"(core::num::Wrapping<u(32|64)>|u32|u64)"
    return (sq.find_field(adt, "mem", r"\[.*; \w+\]"), sq.find_field(adt, "a", scal, 0, 3), sq.find_field(adt, "b", scal, 1, 3),
            sq.find_field(adt, "c", scal, 2, 3))


def core_state(ev, st, crate, ident):
    g = Gen(crate, ident)
    leaves = []
    v = ev.symbolic(g.tyid, "s", leaves)
    oid = st.alloc(v, "self")
    names = [f["name"] for f in g.adt["variants"][0]["fields"]]
    return g, oid, v, names


def check_generate(chk, crate, ident, w):
    ev = crate.evaluator(max_steps=2000000)
    st = State()
    g, oid, v, names = core_state(ev, st, crate, ident)
    key = crate.method(g.path, "rand_core::block::BlockRngCore", "generate")
    body = crate.body(key)
    chk.body(key)
    where = body["span"][0]
    res0 = ArrV(256, w, None, T.arr_sym("results", 256, w), {})
    roid = st.alloc(res0, "results")
    try:
        ev.call_body(st, key, [Ref(oid, (), None, True), Ref(roid, (), None, True)])
    except (Unsupported, SymbolicLoop, Diverged) as e:
        chk.ob("R1", "%s::generate" % ident, False, "not established: %s" % e, where=where)
        return
    post = st.objs[oid]
    results = st.objs[roid]
    iM, iA, iB, iC = core_fields(g)
    mem0, a0, b0, c0 = v.fields[iM], v.fields[iA], v.fields[iB], v.fields[iC]
    rmem, ra, rb, rc, rsl = REF.isaac(mem0, a0, b0, c0, w)
    for nm, got, exp in (("a", post.fields[iA], ra), ("b", post.fields[iB], rb), ("c", post.fields[iC], rc)):
        ok = got is exp
        chk.ob("R2", "%s::generate|%s after the block" % (ident, nm), ok, "" if ok else T.diff(got, exp), where=where)
    bad = [i for i in range(256) if post.fields[iM].get(i) is not rmem.get(i)]
    chk.ob("R1", "%s::generate|all 256 memory words after the block" % ident, not bad,
           "" if not bad else "first differing word %d: %s" % (bad[0], T.diff(post.fields[iM].get(bad[0]), rmem.get(bad[0]))), where=where,
           sample={"core": ident, "mem[0]'": T.show(post.fields[iM].get(0), 3)})
    badr = [i for i in range(256) if results.get(255 - i) is not rsl[i]]
    chk.ob("R5", "%s::generate|result slot 255-i is the i-th produced word, for all 256" % ident, not badr,
           "" if not badr else "first differing output %d: %s" % (badr[0], T.diff(results.get(255 - badr[0]), rsl[badr[0]])), where=where,
           sample={"core": ident, "results[255]": T.show(results.get(255), 3)})


def check_init(chk, crate, ident, w):
    g = Gen(crate, ident)
    init_def = sq.find_fn(crate, g.path + "::init", r"fn\(\[.*; \w+\], u32\) -> .*", scope=g.path)
    key = next((k for k, b in crate.bodies.items() if b["def"] == init_def), None)
    if key is None:
        raise Anchor("%s::init not found" % ident)
    body = crate.body(key)
    chk.body(key)
    where = body["span"][0]
    names = [f["name"] for f in g.adt["variants"][0]["fields"]]
    iM, iA, iB, iC = core_fields(g)
    tys = crate.evaluator().tys
    shape = body["argc"] == 2 and tys[body["locals"][1]]["k"] == "array" and tys[body["locals"][1]].get("len") == 256 \
        and tys[body["locals"][2]]["s"] == "u32"
    if not shape:
        # a private helper of another shape: the routes through it are compared whole (R4; from_rng / try_from_rng in C09)
        chk.ob("R3", "%s::init|helper is not (256 words, passes): seeding decided by the whole-route comparisons R4 only" % ident, True, "",
               where=where, nontrivial=False)
        return
    for passes in (1, 2):
        ev = crate.evaluator(max_steps=2000000)
        st = State()
        words = [T.sym("seed[%d]" % i, w) for i in range(256)]
        arr = ArrV(256, w, None, None, {i: x for i, x in enumerate(words)})
        try:
            r = ev.call_body(st, key, [arr, T.const(passes, 32)])
        except (Unsupported, SymbolicLoop, Diverged) as e:
            chk.ob("R3", "%s::init(%d)" % (ident, passes), False, "not established: %s" % e, where=where)
            continue
        exp = REF.randinit(words, w, passes)
        bad = [i for i in range(256) if r.fields[iM].get(i) is not exp[i]]
        chk.ob("R3", "%s::init|%d pass(es): memory equals randinit's" % (ident, passes), not bad,
               "" if not bad else "first differing word %d: %s" % (bad[0], T.diff(r.fields[iM].get(bad[0]), exp[bad[0]])), where=where,
               sample={"core": ident, "passes": passes, "start_constants": [hex(x.aux) for x in REF.start_constants(w)][:2]})
        z = T.const(0, w)
        okz = r.fields[iA] is z and r.fields[iB] is z and r.fields[iC] is z
        chk.ob("R3", "%s::init|a = b = c = 0 (%d pass)" % (ident, passes), okz, "", where=where, nontrivial=False)


def check_seeding(chk, crate, ident, w):
    g = Gen(crate, ident)
    names = [f["name"] for f in g.adt["variants"][0]["fields"]]
    iM = core_fields(g)[0]
    # from_seed
    key = g.method(SEEDABLE, "from_seed")
    body = crate.body(key)
    chk.body(key)
    ev = crate.evaluator(max_steps=2000000)
    st = State()
    leaves = []
    seed = ev.symbolic(body["locals"][1], "seed", leaves)
    r = ev.call_body(st, key, [seed])
    words = XREF.le_words(leaves, w)
    z = T.const(0, w)
    exp = REF.randinit(words + [z] * (256 - len(words)), w, 2)
    bad = [i for i in range(256) if r.fields[iM].get(i) is not exp[i]]
    chk.ob("R4", "%s::from_seed|randinit(TRUE) on the little-endian seed words, zero-extended" % ident, not bad,
           "" if not bad else "word %d differs: %s" % (bad[0], T.diff(r.fields[iM].get(bad[0]), exp[bad[0]])), where=body["span"][0])
    # seed_from_u64
    key = g.method(SEEDABLE, "seed_from_u64")
    body = crate.body(key)
    chk.body(key)
    ev = crate.evaluator(max_steps=2000000)
    st = State()
    x = T.sym("x", 64)
    r = ev.call_body(st, key, [x])
    kw = [T.trunc(x, 32), T.trunc(T.lshr(x, 32), 32)] if w == 32 else [x]
    exp = REF.randinit(kw + [z] * (256 - len(kw)), w, 1)
    bad = [i for i in range(256) if r.fields[iM].get(i) is not exp[i]]
    chk.ob("R4", "%s::seed_from_u64|one pass on (x, 0, ...): the unseeded reference generator for x = 0" % ident, not bad,
           "" if not bad else "word %d differs: %s" % (bad[0], T.diff(r.fields[iM].get(bad[0]), exp[bad[0]])), where=body["span"][0])


def run(chk, tier):
    crate = Crate("rand_isaac")
    chk.config(crate.config)
    n = 0
    for ident, w in (("IsaacCore", 32), ("Isaac64Core", 64)):
        for fn in (check_generate, check_init, check_seeding):
            try:
                fn(chk, crate, ident, w)
                n += 1
            except (Anchor, Unsupported, SymbolicLoop, Diverged) as e:
                chk.ob("R1", "%s|%s" % (ident, fn.__name__), False, "not established: %s" % e)
    chk.floor("R0", "fragments compared", n, 6)
    # R6: nothing else on the public surface writes mem / a / b / c or the buffer
    from .mutators import check_block_mutators
    for wrapper, core in (("IsaacRng", "IsaacCore"), ("Isaac64Rng", "Isaac64Core")):
        try:
            gk = crate.method(Gen(crate, core).path, "rand_core::block::BlockRngCore", "generate")
            check_block_mutators(chk, crate, [wrapper, core], "R6", [crate.body(gk)["def"]])
        except Anchor as e:
            chk.ob("R6", "%s|mutators" % wrapper, False, "not established: %s" % e)
