"""C02 - Hc128Rng keystream equals HC-128 (Wu) for every key and IV."""
from .. import terms as T, sq
from ..harness import (Crate, State, Ref, ArrV, Struct, EnumV, flat_leaves, Anchor, Unsupported, SymbolicLoop, Diverged, symbolic_args, same_value)
from ..ref import hc128 as REF, xoshiro as XREF
from .linear import Gen, SEEDABLE

RULE = ("(R1-R3) BlockRngCore::generate is value-numbered on a symbolic 1024-word table for each of the 64 residues k of the step counter "
        "modulo 1024 (counter = 1024*q + 16*k with q symbolic, the inductive class invariant counter = 0 mod 16 of C14); all index arithmetic "
        "then folds and the 16 results, the 16 updated table words and the new counter must be identical (normal forms, the h1/h2 look-ups "
        "as select terms) to 16 reference steps i = 16k .. 16k+15 of Wu's specification on the same table; (R4) Hc128Core::init on eight "
        "symbolic key/IV words must give the table obtained from the reference expansion W_0..W_1279 (P = W[256..768), Q = W[768..1280)) "
        "followed by 1024 feedback steps, counter 0 (mod 1024); (R5) from_seed decodes eight little-endian words (first four the key) and the wrapper "
        "delegates to BlockRng")
EXPLANATION = ("Every 16-word block from every table state and every counter residue equals the specification's 16 steps, and the initial "
               "table equals the specification's for every key/IV; whole-keystream equality is the induction over blocks (BlockRng hands "
               "words out in index order: dependency).")


def table_layout(g):
    """-> (indices of the table field(s), index of the counter): one [u32; 1024] field, or two [u32; 512] fields (P, then Q)"""
    fields = g.adt["variants"][0]["fields"]
    iC = sq.find_field(g.adt, "counter1024", r"usize|u16|u32|u64")
    halves = [i for i, f in enumerate(fields) if f["ty"] == "[u32; 512]"]
    if len(halves) == 2 and not any(f["ty"] == "[u32; 1024]" for f in fields):
        return tuple(halves), iC
    return (sq.find_field(g.adt, "t", r"\[u32; 1024\]"),), iC


def check_generate(chk, crate, tier):
    g = Gen(crate, "Hc128Core")
    key = crate.method(g.path, "rand_core::block::BlockRngCore", "generate")
    body = crate.body(key)
    chk.body(key)
    where = body["span"][0]
    iTs, iC = table_layout(g)
    nf = len(g.adt["variants"][0]["fields"])
    # width of the step counter as declared (usize today)
    cw = crate.evaluator().scalar_width(g.adt["variants"][0]["fields"][iC]["tyid"])
    if cw is None or cw < 12:
        raise Anchor("step counter of Hc128Core is not an integer of at least 12 bits")
    q = T.sym("q", cw - 10)
    bad_res, bad_tab, bad_ctr, errors = [], [], [], []
    nblocks = 0
    for k in range(64):
        ev = crate.evaluator()
        st = State()
        if len(iTs) == 1:
            tabs = [ArrV(1024, 32, None, T.arr_sym("t", 1024, 32), {})]
        else:
            tabs = [ArrV(512, 32, None, T.arr_sym("p", 512, 32), {}), ArrV(512, 32, None, T.arr_sym("q", 512, 32), {})]
        ctr = T.xor(T.shl(T.zext(q, cw), 10), T.const(16 * k, cw))
        selfv = [None] * nf
        for i_, t_ in zip(iTs, tabs):
            selfv[i_] = t_
        selfv[iC] = ctr
        oid = st.alloc(Struct(selfv), "self")
        res0 = ArrV(16, 32, None, None, {i: T.sym("results[%d]" % i, 32) for i in range(16)})
        roid = st.alloc(res0, "results")
        try:
            ev.call_body(st, key, [Ref(oid, (), None, True), Ref(roid, (), None, True)])
        except (Unsupported, SymbolicLoop, Diverged) as e:
            errors.append("k=%d: %s" % (k, e))
            continue
        nblocks += 1
        post = st.objs[oid]
        results = st.objs[roid]
        tb = REF.Tables(*tabs)
        outs = [REF.step(tb, 16 * k + j, False) for j in range(16)]
        for j in range(16):
            if results.get(j) is not outs[j]:
                bad_res.append((k, j, T.diff(results.get(j), outs[j])))
        base = 16 * k
        changed = range(base, base + 16)
        pts = [post.fields[i_] for i_ in iTs]
        got_word = (lambda idx: pts[0].get(idx)) if len(pts) == 1 else (lambda idx: pts[idx // 512].get(idx % 512))
        for idx in range(1024):
            if got_word(idx) is not tb.get(idx):
                bad_tab.append((k, idx, T.diff(got_word(idx), tb.get(idx))))
                break
        if post.fields[iC] is not T.add(ctr, T.const(16, cw)):
            bad_ctr.append((k, T.show(post.fields[iC], 3)))
    chk.ob("R1", "Hc128Core::generate|all 64 counter residues analysable", not errors, "; ".join(errors[:3]), where=where, nontrivial=False)
    chk.ob("R2", "Hc128Core::generate|16 results of each of the 64 blocks of a table cycle equal the specification's keystream words",
           not bad_res, "" if not bad_res else "block %d word %d: %s" % bad_res[0], where=where,
           sample={"blocks": nblocks, "words_compared": nblocks * 16})
    chk.ob("R1", "Hc128Core::generate|table after each block equals the specification's (16 updated words, all others untouched)",
           not bad_tab, "" if not bad_tab else "block %d table word %d: %s" % bad_tab[0], where=where)
    chk.ob("R3", "Hc128Core::generate|counter advances by exactly 16 (wrapping)", not bad_ctr, "%s" % bad_ctr[:2], where=where)
    return nblocks


def check_init(chk, crate):
    g = Gen(crate, "Hc128Core")
    iTs, iC = table_layout(g)
    key = g.method(SEEDABLE, "from_seed")
    body = crate.body(key)
    chk.body(key)
    where = body["span"][0]
    ev = crate.evaluator(max_steps=4000000)
    st = State()
    leaves = []
    seed = ev.symbolic(body["locals"][1], "seed", leaves)
    try:
        r = ev.call_body(st, key, [seed])
    except (Unsupported, SymbolicLoop, Diverged) as e:
        chk.ob("R4", "Hc128Core::from_seed", False, "not established: %s" % e, where=where)
        return
    words = XREF.le_words(leaves, 32)
    ok5 = len(words) == 8
    chk.ob("R5", "Hc128Core::from_seed|32 seed bytes are eight little-endian words", ok5, "%d words" % len(words), where=where, nontrivial=False)
    if not ok5:
        return
    W = REF.expand(words[:4], words[4:])
    if len(iTs) == 1:
        tb = REF.Tables(ArrV(1024, 32, None, None, {i: W[256 + i] for i in range(1024)}))
    else:
        tb = REF.Tables(ArrV(512, 32, None, None, {i: W[256 + i] for i in range(512)}), ArrV(512, 32, None, None, {i: W[768 + i] for i in range(512)}))
    for i in range(1024):
        REF.step(tb, i, True)
    gots = [r.fields[i_] for i_ in iTs]
    got_word = (lambda idx: gots[0].get(idx)) if len(gots) == 1 else (lambda idx: gots[idx // 512].get(idx % 512))
    bad = [i for i in range(1024) if got_word(i) is not tb.get(i)]
    chk.ob("R4", "Hc128Core::from_seed|table = specification's expansion (key words 0-3, IV words 4-7) + 1024 feedback steps, for all 1024 words",
           not bad, "" if not bad else "first differing table word %d: %s" % (bad[0], T.diff(got_word(bad[0]), tb.get(bad[0]))), where=where,
           sample={"table_words": 1024, "t[0]": T.show(got_word(0), 2)})
    # generate is decided for every multiple q of 1024 in the counter, so only the position within the table cycle matters
    okc = isinstance(r.fields[iC], T.T) and T.trunc(r.fields[iC], 10) is T.const(0, 10)
    chk.ob("R4", "Hc128Core::from_seed|step counter starts at position 0 of the table cycle (0 mod 1024)", okc, T.show(r.fields[iC]), where=where, nontrivial=False)


def run(chk, tier):
    # sums are flattened completely here (no sharing of large sub-sums), which makes the comparison of the 1024 table words
    # independent of how the implementation associates its wrapping additions; it costs about 20 s for the initialisation
    T.RING_EXPAND_LIMIT = 10 ** 6
    crate = Crate("rand_hc")
    chk.config(crate.config)
    try:
        n = check_generate(chk, crate, tier)
        chk.floor("R0", "counter residues", n, 64)
    except (Anchor, Unsupported) as e:
        chk.ob("R1", "Hc128Core::generate", False, "not established: %s" % e)
    try:
        check_init(chk, crate)
    except (Anchor, Unsupported) as e:
        chk.ob("R4", "Hc128Core::from_seed", False, "not established: %s" % e)
    # R6: nothing else on the public surface writes the table or the counter
    from .mutators import check_block_mutators
    try:
        gk = crate.method(Gen(crate, "Hc128Core").path, "rand_core::block::BlockRngCore", "generate")
        check_block_mutators(chk, crate, ["Hc128Rng", "Hc128Core"], "R6", [crate.body(gk)["def"]])
    except Anchor as e:
        chk.ob("R6", "Hc128Rng|mutators", False, "not established: %s" % e)
