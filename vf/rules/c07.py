"""C07 - linear engines have one cycle of length 2^n - 1 through all non-zero states."""
from .. import terms as T, alg
from ..harness import Crate, Anchor, Unsupported, SymbolicLoop, Diverged, State, Ref, ArrV, flat_leaves
from ..ref import xoshiro as REF
from .linear import Gen, RNGCORE, step_matrix

RULE = ("for each linear generator type: the native step, value-numbered on a symbolic state, must be GF(2)-linear with "
        "no opaque bit and no constant term (R1); the extracted n x n matrix must have rank n (R2); its minimal polynomial "
        "(Berlekamp-Massey on Krylov sequences of the extracted matrix) must have degree n and be primitive: x^(2^n)=x and "
        "x^((2^n-1)/q)!=1 for every certified prime q | 2^n-1 (R3); the state map of the type's other word method (next_u64 of a 32-bit "
        "engine, next_u32 of a 64-bit engine), evaluated with everything inlined, must be the matrix T^2 resp. T (R4), and the state map of fill_bytes on a destination of each "
        "constant length n in the tier's range must be T^k for the k native steps the word table of C05 prescribes for n (R5); every other "
        "method of the type that takes &mut self must leave the state alone or change it by a linear bijection that commutes with T, "
        "i.e. by a power of T, and no field is public and no method hands out &mut into the state (R6), so that every stepping "
        "operation moves along the one cycle")

TRUSTED = ["rustc nightly MIR", "primitive table (vf/prims.py)", "integer arithmetic of CPython",
           "factor table of 2^512-1 (product re-verified, primality by Pratt certificates re-verified each run)"]


def linear_types():
    out = [("rand_xoshiro", k, v) for k, v in REF.GENERATORS.items()]
    out.append(("rand_xorshift", "XorShiftRng", REF.XORSHIFT))
    return out


_CACHE = {}


def engine_of(crate, ident, ref):
    """-> dict(rows, n, pre, post, chi, body) for a linear type (memoised per process)"""
    k = (crate.name, crate.config, ident)
    if k in _CACHE:
        return _CACHE[k]
    g = Gen(crate, ident)
    key = g.method(RNGCORE, ref["native"])
    ev, st, pre, post, ret = g.eval_method(key)
    rows, consts, bad = step_matrix(pre, post)
    n = sum(p.w for p in pre)
    r = {"g": g, "key": key, "pre": pre, "post": post, "ret": ret, "rows": rows, "consts": consts, "bad": bad, "n": n,
         "body": crate.body(key)}
    _CACHE[k] = r
    return r


PROBES = [(1, 1), (0x5, 0x3), (0x8000000000000001, 0x9E3779B97F4A7C15)]


def min_poly(rows, n):
    return alg.minimal_polynomial(rows, n, [(u & ((1 << n) - 1), v & ((1 << n) - 1)) for u, v in PROBES])



FILL_LENS = {"quick": (0, 1, 3, 4, 5, 7, 8, 9, 12, 13, 15, 16, 17, 24), "thorough": tuple(range(0, 41))}


def native_steps(native, n):
    """native steps fill_bytes(n) makes: n/8 next_u64, then one next_u64 (tail 5..7) or one next_u32 (tail 1..4)"""
    per64 = 2 if native == "next_u32" else 1
    tail = n % 8
    return per64 * (n // 8) + (0 if tail == 0 else (per64 if tail > 4 else 1))


def check_fill_power(chk, crate, e, ident, ref, tier):
    """R5: fill_bytes(n) advances the state by a power of the native step"""
    g = e["g"]
    key = g.method(RNGCORE, "fill_bytes")
    chk.body(key)
    where = crate.body(key)["span"][0]
    powers = {0: None, 1: e["rows"]}
    bad = []
    done = 0
    for n in FILL_LENS[tier]:
        k = native_steps(ref["native"], n)
        try:
            dest = ArrV(n, 8, None, None, {i: T.sym("dest[%d]" % i, 8) for i in range(n)})
            ev = crate.evaluator()
            st = State()
            doid = st.alloc(dest, "dest")
            from .linear import sym_self
            sref, pre, oid = sym_self(ev, st, g.tyid, "s")
            ev.call_body(st, key, [sref, Ref(doid, (), (0, n), True)])
            post = flat_leaves(st.objs[oid])
        except (Unsupported, SymbolicLoop, Diverged) as ex:
            bad.append("n=%d: not established: %s" % (n, ex))
            continue
        rows, consts, bad_atom = step_matrix(pre, post)
        done += 1
        if rows is None or any(consts):
            bad.append("n=%d: state map is not GF(2)-linear in the state" % n)
            continue
        hi = max(powers)
        while hi < k:
            powers[hi + 1] = alg.matmul(e["rows"], powers[hi])
            hi += 1
        if k == 0:
            okp = all(r == (1 << i) for i, r in enumerate(rows))
        else:
            okp = list(rows) == list(powers[k])
        if not okp:
            bad.append("n=%d: state map is not T^%d (rank %d of %d)" % (n, k, alg.rank(rows), e["n"]))
    chk.ob("R5", "%s::fill_bytes|state map is the native step applied as often as the word table prescribes, for %d lengths in %d..=%d" % (
        ident, len(FILL_LENS[tier]), FILL_LENS[tier][0], FILL_LENS[tier][-1]), not bad, "; ".join(bad[:3]), where=where,
        sample={"type": ident, "lengths": done} if ident in ("XorShiftRng", "Xoshiro256PlusPlus") else None)
    return done


def run(chk, tier):
    crates = {}
    cnt = fills = 0
    engines = {}
    for cname, ident, ref in linear_types():
        try:
            crate = crates.get(cname) or Crate(cname)
            crates[cname] = crate
            chk.config(crate.config)
            e = engine_of(crate, ident, ref)
        except (Anchor, Unsupported, SymbolicLoop) as ex:
            chk.ob("R1", "%s|linear" % ident, False, "not established: %s" % ex)
            continue
        cnt += 1
        chk.body(e["key"])
        where = e["body"]["span"][0]
        n = e["n"]
        lin = e["rows"] is not None and not any(e["consts"])
        detail = ""
        if e["rows"] is None:
            detail = "post-state depends on a non-state atom: %s" % T.show(e["bad"], 4)
        elif any(e["consts"]):
            detail = "post-state has a constant term (0 would not be a fixed point)"
        chk.ob("R1", "%s::%s|GF(2)-linear in the %d state bits" % (ident, ref["native"], n), lin, detail, where=where)
        if not lin:
            continue
        rk = alg.rank(e["rows"])
        chk.ob("R2", "%s|rank" % ident, rk == n, "rank %d of %d: the transition is %s" % (rk, n, "a bijection" if rk == n else "not injective"), where=where)
        sig = tuple(e["rows"])
        if sig in engines:
            chi, prim, why = engines[sig]
        else:
            chi = min_poly(e["rows"], n)
            if alg.pdeg(chi) == n:
                prim, why = alg.is_primitive(chi, n)
            else:
                prim, why = False, "minimal polynomial has degree %d < %d" % (alg.pdeg(chi), n)
            if tier == "thorough" and prim:
                chi2 = alg.charpoly_hessenberg(e["rows"], n)
                if chi2 != chi:
                    prim, why = False, "two derivations of the characteristic polynomial disagree"
            engines[sig] = (chi, prim, why)
        e["chi"] = chi
        # R4: the other word-producing method advances the state by a power of the native step (so it stays on the single cycle)
        other = "next_u64" if ref["native"] == "next_u32" else "next_u32"
        k = 2 if ref["native"] == "next_u32" else 1
        try:
            okey = e["g"].method(RNGCORE, other)
            chk.body(okey)
            ev2, st2, pre2, post2, ret2 = e["g"].eval_method(okey)
            rows2, consts2, bad2 = step_matrix(pre2, post2)
            if rows2 is None or any(consts2):
                chk.ob("R4", "%s::%s|state map is the native step applied %d time(s)" % (ident, other, k), False,
                       "state map of %s is not GF(2)-linear in the state" % other, where=crate.body(okey)["span"][0])
            else:
                want = e["rows"]
                for _ in range(k - 1):
                    want = alg.matmul(e["rows"], want)
                okp = list(rows2) == list(want)
                bad_rows = [i for i, (a_, b_) in enumerate(zip(rows2, want)) if a_ != b_]
                chk.ob("R4", "%s::%s|state map is the native step applied %d time(s)" % (ident, other, k), okp,
                       "" if okp else "state bits %s..: %s does not advance the state by T^%d, so repeated %s calls need not stay on "
                       "the full-period cycle" % (bad_rows[:4], other, k, other), where=crate.body(okey)["span"][0],
                       sample={"type": ident, "method": other, "power": k} if cnt in (1, 5) else None)
        except (Anchor, Unsupported, SymbolicLoop) as ex:
            chk.ob("R4", "%s::%s|state map" % (ident, other), False, "not established: %s" % ex)
        try:
            fills += check_fill_power(chk, crate, e, ident, ref, tier)
        except Anchor as ex:
            chk.ob("R5", "%s::fill_bytes|state map" % ident, False, "not established: %s" % ex)
        try:
            from .c08 import check_mutators
            check_mutators(chk, crate, e["g"], rule="R6")
        except (Anchor, Unsupported, SymbolicLoop) as ex:
            chk.ob("R6", "%s|other state-writing methods" % ident, False, "not established: %s" % ex)
        chk.ob("R3", "%s|characteristic polynomial primitive" % ident, prim, why, where=where,
               sample={"type": ident, "n": n, "rank": rk, "chi_weight": bin(chi).count("1"), "chi_low64": hex(chi & (2**64 - 1)), "verdict": why})
    chk.extra["distinct_engines"] = len(engines)
    chk.floor("R0", "linear generator types", cnt, 15)
    chk.floor("R0", "distinct engines", len(engines), 7)
    chk.floor("R0", "fill_bytes lengths analysed", fills, 15 * len(FILL_LENS[tier]))
    chk.trusted_base = TRUSTED
