"""C15 - JitterRng pool mixing is bijective."""
from .. import terms as T, alg, sq
from ..harness import (Crate, State, Ref, ArrV, Struct, EnumV, flat_leaves, Anchor, Unsupported, SymbolicLoop, Diverged, symbolic_args)
from .linear import Gen
from .c16 import writers_of_field, field_index

RULE = ("(R0) who-writes(JitterRng.data) is exactly the frozen set; for each writer the new pool value, value-numbered with constant loops "
        "unrolled, must be GF(2)-affine in the old pool value with a 64x64 matrix of rank 64 for every fixed value of the other inputs "
        "(R1: LFSR fold, also rank 64 in the 64-bit time value for a fixed pool; R2: rotation on the accept path; R3: stir_pool), or the "
        "identity (next_u32 storing the value gen_entropy just produced)")
TRUSTED = ["rustc nightly MIR", "primitive table (vf/prims.py)", "GF(2) rank computation (vf/alg.py)"]

WRITERS = {"rand_jitter::JitterRng::<F>::new_with_timer", "<rand_jitter::JitterRng<F> as core::clone::Clone>::clone",
           "rand_jitter::JitterRng::<F>::lfsr_time", "rand_jitter::JitterRng::<F>::measure_jitter",
           "rand_jitter::JitterRng::<F>::stir_pool", "<rand_jitter::JitterRng<F> as rand_core::RngCore>::next_u32"}


def body_by_def(crate, d):
    k = next((k for k, b in crate.bodies.items() if b["def"] == d), None)
    if k is None:
        raise Anchor("body %s not found" % d)
    return k


def rank_in(term, atom):
    """rank of the GF(2)-linear dependence of term on atom (None if not affine over plain atoms)"""
    c, e = T.aff_parts(term)
    if atom not in e:
        return 0, True
    rows, consts, bad = T.linear_rows([T.mk_aff(term.w, 0, {atom: e[atom]})], [atom])
    return alg.rank(rows), True


def affine_atoms(term):
    c, e = T.aff_parts(term)
    return list(e.keys())


def run(chk, tier):
    crate = Crate("rand_jitter")
    chk.config(crate.config)
    g = Gen(crate, "JitterRng")
    iD = field_index(g.adt, "data")
    ws = writers_of_field(crate, g.path, iD)
    chk.ob("R0", "JitterRng.data|writers", ws == WRITERS, "writers: %s" % sorted(x.split("::")[-1] for x in ws),
           sample={"field": "data", "writers": sorted(ws)})
    # ---- R1: the LFSR fold
    lk = next((k for k, b in crate.bodies.items() if b["def"].endswith("lfsr_time::lfsr")), None)
    if lk is None:
        raise Anchor("lfsr not found")
    chk.body(lk)
    ev = crate.evaluator()
    st = State()
    data, time = T.sym("data", 64), T.sym("time", 64)
    r = ev.call_body(st, lk, [data, time])
    rows, consts, bad = T.linear_rows([r], [data, time]) if isinstance(r, T.T) else (None, None, r)
    where = crate.bodies[lk]["span"][0]
    lin = rows is not None
    chk.ob("R1", "lfsr|new pool value is GF(2)-affine in (pool, time)", lin, "" if lin else "depends non-linearly on %s" % T.show(bad, 3), where=where)
    if lin:
        m = (1 << 64) - 1
        A = [row & m for row in rows]
        B = [(row >> 64) & m for row in rows]
        ra, rb = alg.rank(A), alg.rank(B)
        chk.ob("R1", "lfsr|one-to-one in the pool for every fixed time (rank 64)", ra == 64, "rank %d" % ra, where=where,
               sample={"map": "lfsr pool part", "rank": ra})
        chk.ob("R1", "lfsr|one-to-one in the 64-bit time value for every fixed pool (rank 64)", rb == 64, "rank %d" % rb, where=where,
               sample={"map": "lfsr time part", "rank": rb})
    # ---- writers: each new pool value is a bijective affine image of the old one
    for d in sorted(WRITERS):
        short = d.split("::")[-1]
        if short in ("new_with_timer", "clone"):
            continue
        try:
            key = body_by_def(crate, d)
        except Anchor as e:
            chk.ob("R0", "%s|anchor" % short, False, str(e))
            continue
        chk.body(key)
        ev = crate.evaluator(max_steps=3000000)
        ev.summarise_loops = True
        ev.unroll_limit = 100
        st = State()
        body = crate.bodies[key]
        args, objs = symbolic_args(ev, st, body)
        selfv = st.objs[args[0].obj]
        pre = selfv.fields[iD]
        try:
            ret = ev.call_body(st, key, args)
        except (Unsupported, SymbolicLoop, Diverged) as e:
            chk.ob("R2", "%s|pool update" % short, False, "not established: %s" % e, where=body["span"][0])
            continue
        post = st.objs[args[0].obj].fields[iD]
        rule = {"lfsr_time": "R1", "measure_jitter": "R2", "stir_pool": "R3", "next_u32": "R0"}[short]
        check_bijective(chk, rule, short, pre, post, body["span"][0], ev, st)
    chk.trusted_base = TRUSTED


def branches(t, acc=None, conds=()):
    """leaves of an ite tree"""
    if acc is None:
        acc = []
    if isinstance(t, T.T) and t.op == "ite":
        branches(t.args[1], acc, conds + (t.args[0],))
        branches(t.args[2], acc, conds + (T.bnot(t.args[0]),))
    else:
        acc.append((conds, t))
    return acc


def source_pool(t, pre, depth=0):
    """the atom that plays the role of the old pool value in t: `pre` itself, or a value that is itself
    derived bijectively from it (e.g. the pool after a loop / an inlined call, as a loop variable)"""
    return pre


def check_bijective(chk, rule, short, pre, post, where, ev, st):
    n = 0
    for conds, leaf in branches(post):
        n += 1
        label = "%s|pool update on path %d" % (short, n)
        if leaf is pre:
            chk.ob(rule, label + " is the identity", True, "", where=where, nontrivial=False)
            continue
        if not isinstance(leaf, T.T) or leaf.w != 64:
            chk.ob(rule, label, False, "pool is not a 64-bit value: %r" % (leaf,), where=where)
            continue
        c, e = T.aff_parts(leaf)
        # the pool atom: pre, or (inside summarised loops / after opaque effects) the single 64-bit atom standing for the pool
        cands = [a for a in e if a is pre]
        if not cands:
            cands = [a for a in e if a.w == 64 and a.op in ("sym", "rng", "res") and ("data" in str(a.aux) or a.op != "sym")]
        if len(cands) != 1:
            chk.ob(rule, label, False, "new pool value %s is not an affine function of one old pool value" % T.show(leaf, 3), where=where)
            continue
        a = cands[0]
        rows, consts, bad = T.linear_rows([T.mk_aff(64, 0, {a: e[a]})], [a])
        rk = alg.rank(rows)
        others = [T.show(x, 1) for x in e if x is not a]
        chk.ob(rule, label + " is one-to-one in the old pool (rank 64)", rk == 64,
               "rank %d of the 64x64 matrix on %s%s" % (rk, T.show(a, 1), ("; other inputs: %s" % others[:3]) if others else ""), where=where,
               sample={"writer": short, "rank": rk, "other_inputs": others[:3]})
