"""C15 - JitterRng pool mixing is bijective."""
from .. import terms as T, alg, sq
from ..harness import (Crate, State, Ref, ArrV, Struct, EnumV, flat_leaves, Anchor, Unsupported, SymbolicLoop, Diverged, symbolic_args)
from .linear import Gen
from .c16 import writers_of_field, field_index
from .jroles import roles as jitter_roles, find_field

RULE = ("(R0) who-writes(JitterRng.data) is exactly the frozen set; for each writer the new pool value, value-numbered with constant loops "
        "unrolled, must be GF(2)-affine in the old pool value with a 64x64 matrix of rank 64 for every fixed value of the other inputs "
        "(R1: LFSR fold, also rank 64 in the 64-bit time value for a fixed pool; R2: rotation on the accept path; R3: stir_pool), or the "
        "identity (next_u32 storing the value gen_entropy just produced). The pool is followed through summarised loops: a loop "
        "variable in the pool's location must start one-to-one from the enclosing pool, be updated one-to-one per iteration, and no "
        "branch, continuation or exit condition on the way may mention the pool (a pool-dependent choice or number of one-to-one "
        "steps is not one-to-one); a variable of a loop whose trip count depends on the pool counts as pool-dependent")
TRUSTED = ["rustc nightly MIR", "primitive table (vf/prims.py)", "GF(2) rank computation (vf/alg.py)"]

WRITERS = {"rand_jitter::JitterRng::<F>::new_with_timer", "<rand_jitter::JitterRng<F> as core::clone::Clone>::clone",
           "rand_jitter::JitterRng::<F>::lfsr_time", "rand_jitter::JitterRng::<F>::measure_jitter",
           "rand_jitter::JitterRng::<F>::stir_pool", "<rand_jitter::JitterRng<F> as rand_core::RngCore>::next_u32"}


def body_by_def(crate, d):
    k = next((k for k, b in crate.bodies.items() if b["def"] == d), None)
    if k is None:
        raise Anchor("body %s not found" % d)
    return k


def rank_in(term, atom):
    """rank of the GF(2)-linear dependence of term on atom (None if not affine over plain atoms)"""
    c, e = T.aff_parts(term)
    if atom not in e:
        return 0, True
    rows, consts, bad = T.linear_rows([T.mk_aff(term.w, 0, {atom: e[atom]})], [atom])
    return alg.rank(rows), True


def affine_atoms(term):
    c, e = T.aff_parts(term)
    return list(e.keys())


def run(chk, tier):
    from ..report import Suffixed
    run_config(chk, tier, None)
    # the same with the optional features on (std + log): the logging macros expand to code there
    run_config(Suffixed(chk, " [std+log]"), tier, "jitter-std")


def run_config(chk, tier, config):
    crate = Crate("rand_jitter", config) if config else Crate("rand_jitter")
    crate.neutral_crates = {"log"}  # the log facade gets formatted copies only (that it cannot reach the generator is C19's)
    chk.config(crate.config)
    g = Gen(crate, "JitterRng")
    iD = find_field(g.adt, "data", "u64")
    R = jitter_roles(crate)
    global WRITERS
    WRITERS = {"rand_jitter::JitterRng::<F>::new_with_timer", "<rand_jitter::JitterRng<F> as core::clone::Clone>::clone",
               R["lfsr_time"], R["measure_jitter"], R["stir_pool"], "<rand_jitter::JitterRng<F> as rand_core::RngCore>::next_u32"}
    ws = writers_of_field(crate, g.path, iD)
    # no writer outside the analysed set (a listed function that no longer writes the pool is not a problem)
    chk.ob("R0", "JitterRng.data|writers", ws <= WRITERS and len(ws) >= 3, "writers: %s" % sorted(x.split("::")[-1] for x in ws),
           sample={"field": "data", "writers": sorted(ws)})
    # ---- R1: the LFSR fold
    lk = next((k for k, b in crate.bodies.items() if b["def"] == R["lfsr"]), None)
    if lk is None:
        raise Anchor("lfsr not found")
    chk.body(lk)
    ev = crate.evaluator()
    st = State()
    data, time = T.sym("data", 64), T.sym("time", 64)
    r = ev.call_body(st, lk, [data, time])
    rows, consts, bad = T.linear_rows([r], [data, time]) if isinstance(r, T.T) else (None, None, r)
    where = crate.bodies[lk]["span"][0]
    lin = rows is not None
    chk.ob("R1", "lfsr|new pool value is GF(2)-affine in (pool, time)", lin, "" if lin else "depends non-linearly on %s" % T.show(bad, 3), where=where)
    if lin:
        m = (1 << 64) - 1
        A = [row & m for row in rows]
        B = [(row >> 64) & m for row in rows]
        ra, rb = alg.rank(A), alg.rank(B)
        chk.ob("R1", "lfsr|one-to-one in the pool for every fixed time (rank 64)", ra == 64, "rank %d" % ra, where=where,
               sample={"map": "lfsr pool part", "rank": ra})
        chk.ob("R1", "lfsr|one-to-one in the 64-bit time value for every fixed pool (rank 64)", rb == 64, "rank %d" % rb, where=where,
               sample={"map": "lfsr time part", "rank": rb})
    # ---- writers: each new pool value is a bijective affine image of the old one
    for d in sorted(WRITERS):
        short = d.split("::")[-1]
        if short in ("new_with_timer", "clone"):
            continue
        try:
            key = body_by_def(crate, d)
        except Anchor as e:
            chk.ob("R0", "%s|anchor" % short, False, str(e))
            continue
        chk.body(key)
        ev = crate.evaluator(max_steps=3000000)
        ev.summarise_loops = True
        ev.unroll_limit = 100
        st = State()
        body = crate.bodies[key]
        args, objs = symbolic_args(ev, st, body)
        selfv = st.objs[args[0].obj]
        pre = selfv.fields[iD]
        try:
            ret = ev.call_body(st, key, args)
        except (Unsupported, SymbolicLoop, Diverged) as e:
            chk.ob("R2", "%s|pool update" % short, False, "not established: %s" % e, where=body["span"][0])
            continue
        post = st.objs[args[0].obj].fields[iD]
        rule = {R["lfsr_time"]: "R1", R["measure_jitter"]: "R2", R["stir_pool"]: "R3"}.get(d, "R0")
        check_bijective(chk, rule, short, pre, post, body["span"][0], ev, st, (args[0].obj, ("f", iD)))
    chk.trusted_base = TRUSTED


def branches(t, acc=None, conds=()):
    """leaves of an ite tree"""
    if acc is None:
        acc = []
    if isinstance(t, T.T) and t.op == "ite":
        branches(t.args[1], acc, conds + (t.args[0],))
        branches(t.args[2], acc, conds + (T.bnot(t.args[0]),))
    else:
        acc.append((conds, t))
    return acc


class PoolFlow(object):
    """decides that a term is a one-to-one function of the old pool value for every fixed value of everything else,
    following the pool through summarised loops:
      * every leaf of the ite tree is GF(2)-affine in exactly one pool-standing atom with a 64x64 matrix of rank 64
        (or is that atom itself), and nothing else in the leaf mentions the pool;
      * no branch condition mentions the pool (two one-to-one maps selected by the pool need not be one-to-one together);
      * a loop variable that carries pool information stands for the pool only if its initial value derives one-to-one from
        the enclosing pool value, its value after one more iteration derives one-to-one from itself, and no continuation
        or exit condition of that loop mentions the pool (a pool-dependent number of one-to-one steps is not one-to-one)."""

    def __init__(self, ev, pre, pool_loc):
        self.pre = pre
        self.allvars = {}
        for rec in ev.loops_log:
            for n, wh, init, t, rng in rec.vars:
                if isinstance(t, T.T) and t.op in ("sym", "rng"):
                    self.allvars[t] = (rec, n, init)
        # loop variables that carry pool information: initial value or value after an iteration mentions the pool (closure)
        self.names = set(T.atoms_of(pre))
        changed = True
        while changed:
            changed = False
            for t, (rec, n, init) in self.allvars.items():
                if n in self.names:
                    continue
                srcs = [init] + [c[1].get(n) for c in rec.conts]
                # control dependence: a variable of a loop whose number of iterations depends on the pool carries pool information
                srcs += [c[0] for c in rec.conts] + [x[0] for x in rec.exits]
                if any(isinstance(x, T.T) and (T.atoms_of(x) & self.names) for x in srcs):
                    self.names.add(n)
                    changed = True
        self.vars = {t: v for t, v in self.allvars.items() if v[1] in self.names}
        self.loop_ok = {}
        self.ranks = []

    def mentions_pool(self, t):
        return isinstance(t, T.T) and bool(T.atoms_of(t) & self.names)

    def derive(self, term, targets, depth=0):
        """-> None if term derives one-to-one from one of `targets`, else a message"""
        if depth > 12:
            return "loop nesting too deep"
        for conds, leaf in branches(term):
            for c in conds:
                if self.mentions_pool(c):
                    return "branch condition %s depends on the pool" % T.show(c, 2)
            if any(leaf is t for t in targets):
                continue
            if not isinstance(leaf, T.T) or leaf.w != 64:
                return "pool is not a 64-bit value: %r" % (leaf,)
            c, e = T.aff_parts(leaf)
            cands = [a for a in e if any(a is t for t in targets) or a in self.vars]
            for o in e:
                if o not in cands and self.mentions_pool(o):
                    return "new pool value %s depends on the pool outside its affine part (%s)" % (T.show(leaf, 2), T.show(o, 2))
            if len(cands) != 1:
                return "new pool value %s is not an affine function of one old pool value" % T.show(leaf, 3)
            a = cands[0]
            rows, consts, bad = T.linear_rows([T.mk_aff(64, 0, {a: e[a]})], [a])
            rk = alg.rank(rows)
            self.ranks.append(rk)
            if rk != 64:
                return "rank %d of the 64x64 matrix on %s" % (rk, T.show(a, 1))
            if any(a is t for t in targets):
                continue
            rec, n, init = self.vars[a]
            msg = self.valid_loop(a, depth)
            if msg:
                return msg
            if not isinstance(init, T.T):
                return "loop variable %s has no scalar initial value" % n
            msg = self.derive(init, targets, depth + 1)
            if msg:
                return "initial value of %s: %s" % (n, msg)
        return None

    def valid_loop(self, a, depth):
        if a in self.loop_ok:
            return self.loop_ok[a]
        rec, n, init = self.vars[a]
        self.loop_ok[a] = None  # a loop variable may refer to itself
        msg = None
        fn = rec.body.split("::")[-1]
        for cond, nxt, world, assume in rec.conts:
            if self.mentions_pool(cond):
                msg = "loop in %s: the continuation condition %s depends on the pool, so the number of pool updates does" % (fn, T.show(cond, 2))
                break
            v = nxt.get(n)
            if not isinstance(v, T.T):
                msg = "loop in %s: pool after one iteration is not a scalar" % fn
                break
            m = self.derive(v, [a], depth + 1)
            if m:
                msg = "loop in %s, pool after one more iteration: %s" % (fn, m)
                break
        if msg is None:
            for cond, how, at in rec.exits:
                if self.mentions_pool(cond):
                    msg = "loop in %s: the exit condition %s depends on the pool, so the number of pool updates does" % (fn, T.show(cond, 2))
                    break
        self.loop_ok[a] = msg
        return msg


def check_bijective(chk, rule, short, pre, post, where, ev, st, pool_loc):
    pf = PoolFlow(ev, pre, pool_loc)
    msg = pf.derive(post, [pre])
    nleaves = len(branches(post))
    chk.ob(rule, "%s|new pool value is one-to-one in the old pool (every path, through %d pool-carrying loop variable(s))" % (short, len(pf.vars)),
           msg is None, msg or "", where=where,
           sample={"writer": short, "paths": nleaves, "ranks": sorted(set(pf.ranks)), "pool_carrying_loops": len(pf.vars)})
