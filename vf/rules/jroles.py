"""Private items of rand_jitter by role. A private function or field is looked up by today's name first; if that name is gone
(it was renamed or moved), by its signature / type, which must then single out exactly one private item of the crate."""
import re
from ..harness import Anchor

JR = r"rand_jitter::JitterRng<F>"
ROLE_SIGS = {
    "gen_entropy": r"fn\(&mut %s\) -> u64" % JR,
    "stir_pool": r"fn\(&mut %s\)" % JR,
    "measure_jitter": r"fn\(&mut %s, &mut rand_jitter::[\w:]+\) -> (core::option::Option<\(\)>|bool)" % JR,
    "memaccess": r"fn\(&mut %s, &mut \[u8; \w+\], bool\)" % JR,
    "lfsr_time": r"fn\(&mut %s, u64, bool\)" % JR,
    "random_loop_cnt": r"fn\(&mut %s, u32\) -> u32" % JR,
    "stuck": r"fn\(&mut rand_jitter::[\w:]+, i32\) -> bool",
    "lfsr": r"fn\(u64, u64\) -> u64",
}
TODAY = {
    "gen_entropy": "rand_jitter::JitterRng::<F>::gen_entropy", "stir_pool": "rand_jitter::JitterRng::<F>::stir_pool",
    "measure_jitter": "rand_jitter::JitterRng::<F>::measure_jitter", "memaccess": "rand_jitter::JitterRng::<F>::memaccess",
    "lfsr_time": "rand_jitter::JitterRng::<F>::lfsr_time", "random_loop_cnt": "rand_jitter::JitterRng::<F>::random_loop_cnt",
    "stuck": "rand_jitter::EcState::stuck", "lfsr": "rand_jitter::JitterRng::<F>::lfsr_time::lfsr",
}


def norm_sig(s):
    s = re.sub(r"^for<[^>]*> ", "", s)
    s = re.sub(r"&'\w+ ", "&", s)
    return s


def roles(crate):
    """role -> definition path of the private function playing it"""
    have = {b["def"] for b in crate.bodies.values()}
    out = {}
    for role, path in TODAY.items():
        if path in have:
            out[role] = path
            continue
        pat = re.compile(ROLE_SIGS[role])
        taken = set(out.values())
        hits = [f["path"] for f in crate.facts["fns"]
                if not f["pub"] and f["has_body"] and f["path"] in have and f["path"] not in taken and not f["path"].startswith("<")
                and pat.fullmatch(norm_sig(f["sig"]))]
        if len(hits) != 1:
            raise Anchor("private function for role %s: no function named %s and %d private functions of signature %s" % (
                role, path, len(hits), ROLE_SIGS[role]))
        out[role] = hits[0]
    return out


def find_field(adt, name, ty=None, nth=0, count=None):
    """index of a struct field by name, else (renamed field) the nth field whose type matches `ty` when there are exactly
    `count` such fields"""
    fields = adt["variants"][0]["fields"]
    for i, f in enumerate(fields):
        if f["name"] == name:
            return i
    if ty is not None:
        hits = [i for i, f in enumerate(fields) if re.fullmatch(ty, f["ty"])]
        if len(hits) == (count if count is not None else 1) and nth < len(hits):
            return hits[nth]
    raise Anchor("field %s not found" % name)


def ec_state(crate):
    """the private per-collection state (today `EcState`): previous reading u64, two i32 of delta history, the memory block"""
    for a in crate.facts["adts"]:
        if a["path"] == "rand_jitter::EcState":
            return a
    hits = []
    for a in crate.facts["adts"]:
        if a.get("pub") or len(a.get("variants", [])) != 1:
            continue
        tys = sorted(f["ty"] for f in a["variants"][0]["fields"])
        if tys.count("i32") == 2 and "u64" in tys and any(t.startswith("[u8;") for t in tys) and len(tys) == 4:
            hits.append(a)
    if len(hits) != 1:
        raise Anchor("the collection state struct (EcState) was not found")
    return hits[0]
