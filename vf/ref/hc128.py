"""HC-128 (Hongjun Wu, "The Stream Cipher HC-128", eSTREAM 2008, section 2), transcribed against the term API.
Tables are lists of 512 32-bit terms."""
from .. import terms as T

c_ = T.const


def f1(x):
    return T.xor(T.xor(T.rotr(x, 7), T.rotr(x, 18)), T.lshr(x, 3))


def f2(x):
    return T.xor(T.xor(T.rotr(x, 17), T.rotr(x, 19)), T.lshr(x, 10))


def g1(x, y, z):
    """-> the two summands (x>>>10 ^ z>>>23) and (y>>>8) of g1"""
    return T.xor(T.rotr(x, 10), T.rotr(z, 23)), T.rotr(y, 8)


def g2(x, y, z):
    return T.xor(T.rotl(x, 10), T.rotl(z, 23)), T.rotl(y, 8)


def h(table_sel, x):
    """h1(x) = Q[x0] + Q[256 + x2]; table_sel(i_term) selects from the other table"""
    x0 = T.zext(T.trunc(x, 8), 64)
    x2 = T.zext(T.trunc(T.lshr(x, 16), 8), 64)
    return T.add(table_sel(x0), table_sel(T.add(c_(256, 64), x2)))


class Tables(object):
    """P and Q as one evaluator array t[0..1024) (P = t[0..512), Q = t[512..1024)) so that data-dependent
    look-ups are select terms over the same array value as in the implementation"""

    def __init__(self, arr, arr_q=None):
        """one array of 1024 words, or (when the implementation keeps P and Q in two fields) two arrays of 512"""
        self.arr = arr
        self.arr_q = arr_q

    def get(self, i):
        if self.arr_q is None:
            return self.arr.get(i)
        return self.arr.get(i) if i < 512 else self.arr_q.get(i - 512)

    def set(self, i, v):
        if self.arr_q is None or i < 512:
            self.arr = self.arr.set(i, v)
        else:
            self.arr_q = self.arr_q.set(i - 512, v)

    def sel(self, base, idx_term):
        if self.arr_q is None:
            return self.arr.select(T.add(c_(base, 64), idx_term))
        return (self.arr if base == 0 else self.arr_q).select(idx_term)


def step(tb, i, feedback):
    """step i (0 <= i < 1024) of the cipher on tables tb; returns the keystream word; when `feedback`, the
    output replaces the updated table element (initialisation phase)"""
    j = i % 512
    m = lambda k: (j - k) % 512
    if i < 512:
        off, other = 0, 512
        g = g1
    else:
        off, other = 512, 0
        g = g2
    # P[j] + g1(...) = P[j] + (y>>>8) + (x>>>10 ^ z>>>23).  Sums of more than terms.RING_EXPAND_LIMIT monomials are
    # canonical only up to association, so the three summands are added in the customary order (see DESIGN.md)
    gxz, gy = g(tb.get(off + m(3)), tb.get(off + m(10)), tb.get(off + m(511)))
    newv = T.add(T.add(tb.get(off + j), gy), gxz)
    tb.set(off + j, newv)
    x12 = tb.get(off + m(12))
    hv = h(lambda it: tb.sel(other, it), x12)
    s = T.xor(hv, tb.get(off + j))
    if feedback:
        tb.set(off + j, s)
    return s


def expand(key_words, iv_words):
    """W_0 .. W_1279"""
    W = list(key_words) + list(key_words) + list(iv_words) + list(iv_words)
    for i in range(16, 1280):
        W.append(T.add(T.add(T.add(T.add(f2(W[i - 2]), W[i - 7]), f1(W[i - 15])), W[i - 16]), c_(i, 32)))
    return W
