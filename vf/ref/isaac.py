"""Bob Jenkins' ISAAC (rand.c) and ISAAC-64 (isaac64.c), transcribed against the term API.
mem is an evaluator ArrV (256 words); a, b, c are terms of width 32 / 64."""
from .. import terms as T
from ..evalmir import ArrV

c_ = T.const


def params(w):
    if w == 32:
        mixes = [lambda a: T.xor(a, T.shl(a, 13)), lambda a: T.xor(a, T.lshr(a, 6)),
                 lambda a: T.xor(a, T.shl(a, 2)), lambda a: T.xor(a, T.lshr(a, 16))]
        return mixes, 2, 10
    mixes = [lambda a: T.bnot(T.xor(a, T.shl(a, 21))), lambda a: T.xor(a, T.lshr(a, 5)),
             lambda a: T.xor(a, T.shl(a, 12)), lambda a: T.xor(a, T.lshr(a, 33))]
    return mixes, 3, 11


def ind(mem, v, s):
    """mm[(v >> s) mod 256]"""
    idx = T.and_const(T.zext(T.lshr(v, s), 64) if v.w < 64 else T.lshr(v, s), 255)
    return mem.select(idx)


def isaac(mem, a, b, c, w):
    """one call of isaac(): -> (mem', a', b', c', randrsl) with randrsl[i] = the i-th produced word"""
    mixes, s1, s2 = params(w)
    c = T.add(c, c_(1, w))
    b = T.add(b, c)
    rsl = []
    for i in range(256):
        x = mem.get(i)
        a = T.add(mixes[i % 4](a), mem.get((i + 128) % 256))
        y = T.add(T.add(ind(mem, x, s1), a), b)
        mem = mem.set(i, y)
        b = T.add(ind(mem, y, s2), x)
        rsl.append(b)
    return mem, a, b, c, rsl


def mix32(v):
    a, b, c, d, e, f, g, h = v
    a = T.xor(a, T.shl(b, 11)); d = T.add(d, a); b = T.add(b, c)
    b = T.xor(b, T.lshr(c, 2)); e = T.add(e, b); c = T.add(c, d)
    c = T.xor(c, T.shl(d, 8)); f = T.add(f, c); d = T.add(d, e)
    d = T.xor(d, T.lshr(e, 16)); g = T.add(g, d); e = T.add(e, f)
    e = T.xor(e, T.shl(f, 10)); h = T.add(h, e); f = T.add(f, g)
    f = T.xor(f, T.lshr(g, 4)); a = T.add(a, f); g = T.add(g, h)
    g = T.xor(g, T.shl(h, 8)); b = T.add(b, g); h = T.add(h, a)
    h = T.xor(h, T.lshr(a, 9)); c = T.add(c, h); a = T.add(a, b)
    return [a, b, c, d, e, f, g, h]


def mix64(v):
    a, b, c, d, e, f, g, h = v
    a = T.sub(a, e); f = T.xor(f, T.lshr(h, 9)); h = T.add(h, a)
    b = T.sub(b, f); g = T.xor(g, T.shl(a, 9)); a = T.add(a, b)
    c = T.sub(c, g); h = T.xor(h, T.lshr(b, 23)); b = T.add(b, c)
    d = T.sub(d, h); a = T.xor(a, T.shl(c, 15)); c = T.add(c, d)
    e = T.sub(e, a); b = T.xor(b, T.lshr(d, 14)); d = T.add(d, e)
    f = T.sub(f, b); c = T.xor(c, T.shl(e, 20)); e = T.add(e, f)
    g = T.sub(g, c); d = T.xor(d, T.lshr(f, 17)); f = T.add(f, g)
    h = T.sub(h, d); e = T.xor(e, T.shl(g, 14)); g = T.add(g, h)
    return [a, b, c, d, e, f, g, h]


GOLDEN = {32: 0x9E3779B9, 64: 0x9E3779B97F4A7C13}


def start_constants(w):
    """a..h after initialising with the golden ratio and scrambling four times"""
    v = [c_(GOLDEN[w], w)] * 8
    mix = mix32 if w == 32 else mix64
    for _ in range(4):
        v = mix(v)
    return v


def randinit(words, w, passes):
    """randinit: `words` = the 256 seed words (terms); passes = 2 for randinit(TRUE), 1 for the key-less init.
    -> mem (list of 256 terms); a = b = c = 0 afterwards"""
    mix = mix32 if w == 32 else mix64
    v = start_constants(w)
    mem = list(words)
    for _ in range(passes):
        for i in range(0, 256, 8):
            v = [T.add(v[k], mem[i + k]) for k in range(8)]
            v = mix(v)
            for k in range(8):
                mem[i + k] = v[k]
    return mem
