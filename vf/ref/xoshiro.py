"""Reference algorithms of Blackman & Vigna (xoshiro / xoroshiro 1.0, xoshiro128** 1.1,
splitmix64.c, dsiutils Mix4) and Marsaglia's xor128, transcribed once against the term API.
State words are terms; every function returns (new_state_words, output_word).

Sources transcribed (C, public domain): xoroshiro64star.c, xoroshiro64starstar.c,
xoroshiro128plus.c, xoroshiro128plusplus.c, xoroshiro128starstar.c, xoshiro128plus.c,
xoshiro128plusplus.c, xoshiro128starstar.c, xoshiro256*.c, xoshiro512*.c, splitmix64.c;
Marsaglia, "Xorshift RNGs", JSS 8(14) 2003, p.5 (xor128)."""
from .. import terms as T

c = T.const


# ---- linear engines -------------------------------------------------------
def xoroshiro(s, a, b, cc):
    s0, s1 = s
    s1 = T.xor(s1, s0)                                   # s1 ^= s0
    n0 = T.xor(T.xor(T.rotl(s0, a), s1), T.shl(s1, b))   # s[0] = rotl(s0,a) ^ s1 ^ (s1 << b)
    n1 = T.rotl(s1, cc)                                  # s[1] = rotl(s1,c)
    return [n0, n1]


def xoshiro4(s, a, b):
    s = list(s)
    t = T.shl(s[1], a)
    s[2] = T.xor(s[2], s[0])
    s[3] = T.xor(s[3], s[1])
    s[1] = T.xor(s[1], s[2])
    s[0] = T.xor(s[0], s[3])
    s[2] = T.xor(s[2], t)
    s[3] = T.rotl(s[3], b)
    return s


def xoshiro8(s):
    s = list(s)
    t = T.shl(s[1], 11)
    s[2] = T.xor(s[2], s[0])
    s[5] = T.xor(s[5], s[1])
    s[1] = T.xor(s[1], s[2])
    s[7] = T.xor(s[7], s[3])
    s[3] = T.xor(s[3], s[4])
    s[4] = T.xor(s[4], s[5])
    s[0] = T.xor(s[0], s[6])
    s[6] = T.xor(s[6], s[7])
    s[6] = T.xor(s[6], t)
    s[7] = T.rotl(s[7], 21)
    return s


def xor128(s):
    x, y, z, w = s
    t = T.xor(x, T.shl(x, 11))
    nw = T.xor(T.xor(w, T.lshr(w, 19)), T.xor(t, T.lshr(t, 8)))
    return [y, z, w, nw]


# ---- scramblers -----------------------------------------------------------
def plus(a, b):
    return T.add(a, b)


def plusplus(a, b, r):
    return T.add(T.rotl(T.add(a, b), r), a)


def starstar64(x):
    w = x.w
    return T.mul(T.rotl(T.mul(x, c(5, w)), 7), c(9, w))


def star32(x):
    return T.mul(x, c(0x9E3779BB, 32))


def starstar32(x):
    return T.mul(T.rotl(T.mul(x, c(0x9E3779BB, 32)), 5), c(5, 32))


# ---- generator table --------------------------------------------------------
# name -> dict(w, n, step, out, native, jump exponents)
def _g(w, n, step, out, native):
    return {"w": w, "n": n, "step": step, "out": out, "native": native}


GENERATORS = {
    "Xoroshiro64Star": _g(32, 2, lambda s: xoroshiro(s, 26, 9, 13), lambda s: star32(s[0]), "next_u32"),
    "Xoroshiro64StarStar": _g(32, 2, lambda s: xoroshiro(s, 26, 9, 13), lambda s: starstar32(s[0]), "next_u32"),
    "Xoroshiro128Plus": _g(64, 2, lambda s: xoroshiro(s, 24, 16, 37), lambda s: plus(s[0], s[1]), "next_u64"),
    "Xoroshiro128PlusPlus": _g(64, 2, lambda s: xoroshiro(s, 49, 21, 28), lambda s: plusplus(s[0], s[1], 17), "next_u64"),
    "Xoroshiro128StarStar": _g(64, 2, lambda s: xoroshiro(s, 24, 16, 37), lambda s: starstar64(s[0]), "next_u64"),
    "Xoshiro128Plus": _g(32, 4, lambda s: xoshiro4(s, 9, 11), lambda s: plus(s[0], s[3]), "next_u32"),
    "Xoshiro128PlusPlus": _g(32, 4, lambda s: xoshiro4(s, 9, 11), lambda s: plusplus(s[0], s[3], 7), "next_u32"),
    # xoshiro128** 1.1: rotl(s[1] * 5, 7) * 9
    "Xoshiro128StarStar": _g(32, 4, lambda s: xoshiro4(s, 9, 11), lambda s: starstar64(s[1]), "next_u32"),
    "Xoshiro256Plus": _g(64, 4, lambda s: xoshiro4(s, 17, 45), lambda s: plus(s[0], s[3]), "next_u64"),
    "Xoshiro256PlusPlus": _g(64, 4, lambda s: xoshiro4(s, 17, 45), lambda s: plusplus(s[0], s[3], 23), "next_u64"),
    "Xoshiro256StarStar": _g(64, 4, lambda s: xoshiro4(s, 17, 45), lambda s: starstar64(s[1]), "next_u64"),
    "Xoshiro512Plus": _g(64, 8, xoshiro8, lambda s: plus(s[0], s[2]), "next_u64"),
    "Xoshiro512PlusPlus": _g(64, 8, xoshiro8, lambda s: T.add(T.rotl(T.add(s[0], s[2]), 17), s[2]), "next_u64"),
    "Xoshiro512StarStar": _g(64, 8, xoshiro8, lambda s: starstar64(s[1]), "next_u64"),
}

LINEAR = dict(GENERATORS)
# XorShiftRng: output is the *new* w
XORSHIFT = _g(32, 4, xor128, None, "next_u32")

PHI = 0x9E3779B97F4A7C15


def splitmix64_next_u64(x):
    x = T.add(x, c(PHI, 64))
    z = x
    z = T.mul(T.xor(z, T.lshr(z, 30)), c(0xBF58476D1CE4E5B9, 64))
    z = T.mul(T.xor(z, T.lshr(z, 27)), c(0x94D049BB133111EB, 64))
    return x, T.xor(z, T.lshr(z, 31))


def splitmix64_next_u32(x):
    """dsiutils SplitMix64 32-bit output: Stafford Mix4 finalizer, upper half"""
    x = T.add(x, c(PHI, 64))
    z = x
    z = T.mul(T.xor(z, T.lshr(z, 33)), c(0x62A9D9ED799705F5, 64))
    z = T.mul(T.xor(z, T.lshr(z, 28)), c(0xCB24D0A5C88C35B3, 64))
    return x, T.trunc(T.lshr(z, 32), 32)


def le_words(bytes_, w):
    """little-endian words of a byte list"""
    k = w // 8
    return [T.concat_bytes_le(bytes_[i * k:(i + 1) * k]) for i in range(len(bytes_) // k)]


# jump distances: log2 of the number of steps
def jump_exponents(nbits):
    return {"jump": nbits // 2, "long_jump": 3 * nbits // 4}
