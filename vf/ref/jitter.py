"""Jitterentropy 2.1.0 collection procedure as documented in rand_jitter (and restated in property C12),
transcribed against the term API.  Readings and pool values are terms."""
from .. import terms as T

c = T.const


def lfsr(data, time):
    """64 rounds: inject bit i-1 of `time`, six feedback taps (x^64+x^61+x^56+x^31+x^28+x^23+1), rotate left 1"""
    for i in range(1, 65):
        tmp = T.lshr(T.shl(time, 64 - i), 63)
        data = T.xor(data, tmp)
        for k in (63, 60, 55, 30, 27, 22):
            data = T.xor(data, T.and_const(T.lshr(data, k), 1))
        data = T.rotl(data, 1)
    return data


def random_loop_cnt(reading, data, n_bits):
    """fold (reading ^ data) into n_bits bits: xor of ceil(64/n) n-bit slices; returned as u32"""
    time = T.xor(reading, data)
    folds = (64 + n_bits - 1) // n_bits
    mask = (1 << n_bits) - 1
    rounds = c(0, 64)
    for _ in range(folds):
        rounds = T.xor(rounds, T.and_const(time, mask))
        time = T.lshr(time, n_bits)
    return T.trunc(rounds, 32)


def stuck(last_delta, last_delta2, cur):
    """-> (is_stuck, new_last_delta, new_last_delta2); differences are taken modulo 2^32"""
    d2 = T.sub(last_delta, cur)
    d3 = T.sub(d2, last_delta2)
    is_stuck = T.or1([T.eqz(cur), T.eqz(d2), T.eqz(d3)])
    return is_stuck, cur, d2


STIR_CONSTANT = 0x67452301EFCDAB89
STIR_MIXER = 0x98BADCFE10325476


def stir_pool(data):
    mixer = c(STIR_MIXER, 64)
    for i in range(64):
        bit = T.trunc(T.lshr(data, i), 1)
        mixer = T.xor(mixer, T.and_const(T.replicate(bit, 64), STIR_CONSTANT))
        mixer = T.rotl(mixer, 1)
    return T.xor(data, mixer)


def memaccess_index(index):
    return T.urem(T.sub(T.add(index, c(32, 64)), c(1, 64)), c(2048, 64))
