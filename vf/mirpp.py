"""Compact pretty printer for the MIR facts (debug aid)."""
import json, sys

def pplace(p):
    l, proj = p
    s = "_%d" % l
    for e in proj:
        k = e[0]
        if k == "d": s = "(*%s)" % s
        elif k == "f": s = "%s.%d" % (s, e[1])
        elif k == "i": s = "%s[_%d]" % (s, e[1])
        elif k == "c": s = "%s[%s%d of %d]" % (s, "-" if e[3] else "", e[1], e[2])
        elif k == "s": s = "%s[%d..%s%d]" % (s, e[1], "-" if e[3] else "", e[2])
        elif k == "v": s = "(%s as v%d:%s)" % (s, e[1], e[2])
        else: s = "%s.<%s>" % (s, k)
    return s

def pconst(c, tys):
    t = tys[c["ty"]]["s"]
    if "fn" in c: return "fn(%s)" % c["fn"]["path"]
    if "int" in c: return "%s_%s" % (c["int"], t)
    if "zst" in c: return "zst:%s" % t
    for k in ("ptr", "mem", "slice"):
        if k in c:
            b = c[k].get("bytes", str(c[k]))
            return "%s:%s{%s%s}" % (k, t, b[:64], "..." if len(b) > 64 else "")
    return "const?%s" % json.dumps(c)[:80]

def pop(o, tys):
    if o[0] == "cp": return pplace(o[1])
    if o[0] == "mv": return "move " + pplace(o[1])
    if o[0] == "k": return pconst(o[1], tys)
    return str(o)

def prv(r, tys):
    k = r[0]
    if k == "use": return pop(r[1], tys)
    if k == "bin": return "%s(%s, %s)" % (r[1], pop(r[2], tys), pop(r[3], tys))
    if k == "un": return "%s(%s)" % (r[1], pop(r[2], tys))
    if k == "cast": return "%s as %s [%s]" % (pop(r[2], tys), tys[r[3]]["s"], r[1])
    if k == "ref": return "&%s%s" % ("mut " if r[1] else "", pplace(r[2]))
    if k == "raw": return "&raw %s %s" % (r[1], pplace(r[2]))
    if k == "agg":
        kind = r[1]
        nm = kind["k"]
        if nm == "adt": nm = "%s#%d" % (kind["def"], kind["variant"])
        if nm == "closure": nm = "closure:" + kind["def"]
        return "%s{%s}" % (nm, ", ".join(pop(o, tys) for o in r[2]))
    if k == "rep": return "[%s; %s]" % (pop(r[1], tys), r[2])
    if k == "discr": return "discr(%s)" % pplace(r[1])
    return str(r)

def pbody(b, tys, out=sys.stdout):
    w = out.write
    w("fn %s  [%s] argc=%d\n" % (b["key"], b["span"][0], b["argc"]))
    for i, t in enumerate(b["locals"]):
        nm = b["names"].get(str(i), "")
        w("   let _%d: %s %s\n" % (i, tys[t]["s"], ("// " + nm) if nm else ""))
    for i, bl in enumerate(b["blocks"]):
        if bl["cleanup"]: continue
        w(" bb%d:\n" % i)
        for s in bl["s"]:
            if s[0] == "a":
                w("    %s = %s    // %s\n" % (pplace(s[1]), prv(s[2], tys), s[3][0].split("/")[-1]))
            else:
                w("    %s\n" % json.dumps(s)[:200])
        t = bl["t"]
        if t[0] == "call":
            c = t[1]
            nm = c.get("res") or c.get("rpath") or c.get("path") or str(c)
            tag = "" if c.get("res") else " [%s]" % c.get("why", "indirect")
            w("    %s = call %s(%s)%s -> %s\n" % (pplace(t[3]), nm, ", ".join(pop(o, tys) for o in t[2]), tag, "bb%s" % t[4]))
        elif t[0] == "assert":
            w("    assert(%s == %s, %s) -> bb%d\n" % (pop(t[1], tys), t[2], t[3], t[4]))
        elif t[0] == "switch":
            w("    switch %s %s else bb%d\n" % (pop(t[1], tys), ", ".join("%s:bb%d" % (v, bb) for v, bb in t[2]), t[3]))
        elif t[0] == "drop":
            w("    drop(%s) -> bb%d\n" % (pplace(t[1]), t[2]))
        else:
            w("    %s\n" % " ".join(str(x) for x in t))

if __name__ == "__main__":
    d = json.load(open(sys.argv[1]))
    pat = sys.argv[2] if len(sys.argv) > 2 else ""
    for k, b in d["bodies"].items():
        if pat in k:
            pbody(b, d["tys"])
            print()
