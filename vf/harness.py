"""Shared helpers for the rules: evaluator set-up, type / impl lookup."""
from . import facts, terms as T
from .evalmir import Evaluator, State, Ref, Struct, ArrV, EnumV, OpaqueV, Unsupported, SymbolicLoop, Diverged
from .report import Anchor


class Crate(object):
    def __init__(self, name, config="default", profile="dev"):
        self.name = name
        self.facts = facts.load(name, config, profile)
        self.tys = self.facts["tys"]
        self.bodies = self.facts["bodies"]
        self.config = "%s/%s" % (config, profile)

    def evaluator(self, **kw):
        ev = Evaluator(self.facts, **kw)
        ev.neutral_crates |= getattr(self, "neutral_crates", set())
        return ev

    def ty_by_name(self, s):
        for i, t in enumerate(self.tys):
            if t["s"] == s:
                return i
        raise Anchor("type %s not found in facts of %s" % (s, self.name))

    def ty_of_adt(self, path):
        """type id of the ADT itself (identity generic arguments for generic ADTs)"""
        cands = []
        for i, t in enumerate(self.tys):
            if t["k"] == "adt" and t["def"] == path:
                if all(self.tys[a]["k"] == "param" for a in t["targs"]):
                    cands.append(i)
        if not cands:
            raise Anchor("type %s not found in facts of %s" % (path, self.name))
        return cands[0]

    def adt(self, path):
        for a in self.facts["adts"]:
            if a["path"] == path:
                return a
        raise Anchor("ADT %s not found in %s" % (path, self.name))

    def adt_by_ident(self, ident):
        hits = [a for a in self.facts["adts"] if a["path"].split("::")[-1] == ident]
        if len(hits) != 1:
            raise Anchor("ADT named %s: %d matches in %s" % (ident, len(hits), self.name))
        return hits[0]

    def impls_of(self, adt_path, trait=None):
        out = []
        for im in self.facts["impls"]:
            if im.get("self_adt") == adt_path and (trait is None or im.get("trait") == trait):
                out.append(im)
        return out

    def method(self, adt_path, trait, name):
        """body key of a trait (or inherent: trait=None) method of an ADT"""
        for im in self.impls_of(adt_path):
            if im.get("trait") == trait and name in im["methods"]:
                return im["methods"][name]
        raise Anchor("method %s of <%s as %s> not found" % (name, adt_path, trait))

    def has_method(self, adt_path, trait, name):
        for im in self.impls_of(adt_path):
            if im.get("trait") == trait and name in im["methods"]:
                return True
        return False

    def body(self, key):
        b = self.bodies.get(key)
        if b is None:
            raise Anchor("body %s not found" % key)
        return b


def sym_self(ev, st, tyname_or_id, name="self", big=True):
    tyid = tyname_or_id if isinstance(tyname_or_id, int) else None
    if tyid is None:
        for i, t in enumerate(ev.tys):
            if t["s"] == tyname_or_id:
                tyid = i
                break
        if tyid is None:
            raise Anchor("type %s not in facts" % tyname_or_id)
    leaves = []
    v = ev.symbolic(tyid, name, leaves, big)
    oid = st.alloc(v, name)
    return Ref(oid, (), None, True), leaves, oid


def flat_leaves(v, out=None):
    """scalar leaves of a value in declaration order"""
    if out is None:
        out = []
    if isinstance(v, T.T):
        out.append(v)
    elif isinstance(v, Struct):
        for f in v.fields:
            flat_leaves(f, out)
    elif isinstance(v, ArrV):
        for i in range(v.n):
            flat_leaves(v.get(i), out)
    else:
        out.append(v)
    return out


def where(body):
    return body["span"][0]


def ref_ty(ev, pointee, mut=True):
    for i, t in enumerate(ev.tys):
        if t["k"] == "ref" and t["to"] == pointee and t["mut"] == mut:
            return i
    return None


def ty_id(ev, s):
    for i, t in enumerate(ev.tys):
        if t["s"] == s:
            return i
    return None


def synth_call(ev, st, key, args, argtys, dest_ty, unresolved=False):
    """apply the opaque-call construction of the evaluator to `key` (used to build expected terms)"""
    from .evalmir import CallCtx
    callee = {"rpath": key, "path": key, "res": None if unresolved else key, "why": "unresolved" if unresolved else "no-inline"}
    ctx = CallCtx(callee, list(args), list(argtys), dest_ty, ["synthetic", "synthetic", False], None)
    return ev.P.opaque_call(ev, st, ctx, "synthetic")


def sym_slice(ev, st, name="dest", w=8):
    """&mut [u8] of unknown length"""
    arr = ArrV(1 << 62, w, None, T.arr_sym(name, None, w), {})
    oid = st.alloc(arr, name)
    return Ref(oid, (), (0, T.sym(name + ".len", 64)), True), oid


def same_value(a, b):
    """structural identity of two evaluator values (terms by identity)"""
    if a is b:
        return True
    if isinstance(a, T.T) or isinstance(b, T.T):
        return a is b
    if isinstance(a, Struct) and isinstance(b, Struct):
        return len(a.fields) == len(b.fields) and all(same_value(x, y) for x, y in zip(a.fields, b.fields))
    if isinstance(a, ArrV) and isinstance(b, ArrV):
        if a.n != b.n:
            return False
        if a.chunks is b.chunks and a.base is b.base and a.fill is b.fill:
            return True
        if a.n <= 4096 and a.base is None and b.base is None:
            return all(same_value(a.get(i), b.get(i)) for i in range(a.n))
        if a.w is not None and b.w is not None:
            return a.to_term() is b.to_term()
        return False
    if isinstance(a, EnumV) and isinstance(b, EnumV):
        da = a.discr if isinstance(a.discr, int) else a.discr
        if (a.discr is not b.discr) and a.discr != b.discr:
            return False
        return set(a.payloads) == set(b.payloads) and all(
            len(a.payloads[k]) == len(b.payloads[k]) and all(same_value(x, y) for x, y in zip(a.payloads[k], b.payloads[k])) for k in a.payloads)
    if isinstance(a, Ref) and isinstance(b, Ref):
        return a.same(b)
    if isinstance(a, OpaqueV) and isinstance(b, OpaqueV):
        return a.token == b.token
    from .evalmir import PrimV, ClosureV, FnV
    if isinstance(a, PrimV) and isinstance(b, PrimV):
        if a.kind != b.kind:
            return False
        da = a.data if isinstance(a.data, tuple) else (a.data,)
        db = b.data if isinstance(b.data, tuple) else (b.data,)
        return len(da) == len(db) and all(same_value(x, y) if not isinstance(x, (int, str, bool, dict, type(None))) else x == y for x, y in zip(da, db))
    if isinstance(a, ClosureV) and isinstance(b, ClosureV):
        return a.defpath == b.defpath and all(same_value(x, y) for x, y in zip(a.upvars, b.upvars))
    if isinstance(a, FnV) and isinstance(b, FnV):
        return a.callee.get("path") == b.callee.get("path")
    return False


def symbolic_args(ev, st, body, prefix="a"):
    """symbolic argument values for a body, by parameter type; returns (args, {argname: obj id of pointee})"""
    args = []
    objs = {}
    for i in range(1, body["argc"] + 1):
        tyid = body["locals"][i]
        t = ev.tys[tyid]
        name = body["names"].get(str(i)) or "%s%d" % (prefix, i)
        if t["k"] in ("ref", "ptr"):
            pt = ev.tys[t["to"]]
            if pt["k"] == "slice":
                ew = ev.scalar_width(ev.strip_newtypes(pt["elem"])) or 8
                r, oid = sym_slice(ev, st, name, ew)
                r.mut = t["mut"]
                args.append(r)
                objs[name] = oid
            else:
                v = ev.symbolic(t["to"], name, [])
                oid = st.alloc(v, name)
                args.append(Ref(oid, (), None, t["mut"]))
                objs[name] = oid
        else:
            args.append(ev.symbolic(tyid, name, []))
    return args, objs
