"""Shared helpers for the rules: evaluator set-up, type / impl lookup."""
from . import facts, terms as T
from .evalmir import Evaluator, State, Ref, Struct, ArrV, EnumV, OpaqueV, Unsupported, SymbolicLoop, Diverged
from .report import Anchor


class Crate(object):
    def __init__(self, name, config="default", profile="dev"):
        self.name = name
        self.facts = facts.load(name, config, profile)
        self.tys = self.facts["tys"]
        self.bodies = self.facts["bodies"]
        self.config = "%s/%s" % (config, profile)

    def evaluator(self, **kw):
        return Evaluator(self.facts, **kw)

    def ty_by_name(self, s):
        for i, t in enumerate(self.tys):
            if t["s"] == s:
                return i
        raise Anchor("type %s not found in facts of %s" % (s, self.name))

    def adt(self, path):
        for a in self.facts["adts"]:
            if a["path"] == path:
                return a
        raise Anchor("ADT %s not found in %s" % (path, self.name))

    def adt_by_ident(self, ident):
        hits = [a for a in self.facts["adts"] if a["path"].split("::")[-1] == ident]
        if len(hits) != 1:
            raise Anchor("ADT named %s: %d matches in %s" % (ident, len(hits), self.name))
        return hits[0]

    def impls_of(self, adt_path, trait=None):
        out = []
        for im in self.facts["impls"]:
            if im.get("self_adt") == adt_path and (trait is None or im.get("trait") == trait):
                out.append(im)
        return out

    def method(self, adt_path, trait, name):
        """body key of a trait (or inherent: trait=None) method of an ADT"""
        for im in self.impls_of(adt_path):
            if im.get("trait") == trait and name in im["methods"]:
                return im["methods"][name]
        raise Anchor("method %s of <%s as %s> not found" % (name, adt_path, trait))

    def has_method(self, adt_path, trait, name):
        for im in self.impls_of(adt_path):
            if im.get("trait") == trait and name in im["methods"]:
                return True
        return False

    def body(self, key):
        b = self.bodies.get(key)
        if b is None:
            raise Anchor("body %s not found" % key)
        return b


def sym_self(ev, st, tyname_or_id, name="self", big=True):
    tyid = tyname_or_id if isinstance(tyname_or_id, int) else None
    if tyid is None:
        for i, t in enumerate(ev.tys):
            if t["s"] == tyname_or_id:
                tyid = i
                break
        if tyid is None:
            raise Anchor("type %s not in facts" % tyname_or_id)
    leaves = []
    v = ev.symbolic(tyid, name, leaves, big)
    oid = st.alloc(v, name)
    return Ref(oid, (), None, True), leaves, oid


def flat_leaves(v, out=None):
    """scalar leaves of a value in declaration order"""
    if out is None:
        out = []
    if isinstance(v, T.T):
        out.append(v)
    elif isinstance(v, Struct):
        for f in v.fields:
            flat_leaves(f, out)
    elif isinstance(v, ArrV):
        for i in range(v.n):
            flat_leaves(v.get(i), out)
    else:
        out.append(v)
    return out


def where(body):
    return body["span"][0]
