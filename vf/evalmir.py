"""Abstract evaluation of MIR to normal-form terms (the value-numbering pass).

The evaluator walks the CFG of a body once.  Branches on constants are
followed; branches on non-constants fork the store and merge it again at the
immediate post-dominator (gated phi = ite).  Calls with available MIR are
inlined by resolved instance; `core` functions are given their meaning by the
primitive table (prims.py); everything else becomes an opaque call atom whose
effects on &mut arguments are fresh atoms.  Assert terminators whose condition
does not fold to the expected constant are *recorded* (for C14) and assumed on
the success edge.
"""
from . import terms as T
from .cfg import CFG


class Unsupported(Exception):
    pass


class SymbolicLoop(Exception):
    def __init__(self, body_key, bb, cond, fr=None, why=""):
        Exception.__init__(self, "symbolic loop in %s at bb%d (%s)" % (body_key, bb, why))
        self.body_key = body_key
        self.bb = bb
        self.cond = cond
        self.fr = fr
        self.why = why


class Out(object):
    """one way a run ended: how in {'stop','ret'}, at = block for 'stop'"""
    __slots__ = ("cond", "st", "how", "at")

    def __init__(self, cond, st, how, at):
        self.cond = cond
        self.st = st
        self.how = how
        self.at = at


class Diverged(Exception):
    pass


# ------------------------------------------------------------------ values


class Struct(object):
    __slots__ = ("fields",)

    def __init__(self, fields):
        self.fields = tuple(fields)

    def __repr__(self):
        return "Struct%r" % (self.fields,)


UNIT = Struct(())


class EnumV(object):
    """discr: int (known variant) or 64-bit term; payloads: {variant: tuple(values)}"""
    __slots__ = ("discr", "payloads")

    def __init__(self, discr, payloads):
        self.discr = discr
        self.payloads = payloads

    def __repr__(self):
        return "Enum(%r,%r)" % (self.discr, self.payloads)


class ArrV(object):
    """array of n elements.  Elements at constant indices live in 32-element chunks (persistent:
    a store copies one chunk); unset elements come from `fill` (a value) or `base` (an array term)."""
    __slots__ = ("n", "w", "fill", "base", "chunks", "_term")
    CH = 32

    def __init__(self, n, w, fill=None, base=None, elems=None, chunks=None):
        self.n = n
        self.w = w  # element width if scalar elements else None
        self.fill = fill
        self.base = base
        self._term = None
        if chunks is not None:
            self.chunks = chunks
        else:
            nch = (min(n, 1 << 20) + self.CH - 1) // self.CH if n < (1 << 40) else 0
            ch = [None] * nch
            if elems:
                tmp = {}
                for i, v in elems.items():
                    tmp.setdefault(i >> 5, {})[i & 31] = v
                for ci, d in tmp.items():
                    ch[ci] = tuple(d.get(j) for j in range(self.CH))
            self.chunks = tuple(ch)

    @property
    def elems(self):
        d = {}
        for ci, c in enumerate(self.chunks):
            if c is not None:
                for j, v in enumerate(c):
                    if v is not None:
                        d[(ci << 5) | j] = v
        return d

    def get(self, i):
        ci = i >> 5
        if ci < len(self.chunks):
            c = self.chunks[ci]
            if c is not None:
                v = c[i & 31]
                if v is not None:
                    return v
        if self.base is not None:
            return T.select(self.base, T.const(i, 64), self.w)
        return self.fill

    def set(self, i, v):
        ci = i >> 5
        if ci >= len(self.chunks):
            raise Unsupported("constant index %d into an array of unknown extent" % i)
        c = self.chunks[ci]
        if c is None:
            c = (None,) * self.CH
        j = i & 31
        c = c[:j] + (v,) + c[j + 1:]
        chunks = self.chunks[:ci] + (c,) + self.chunks[ci + 1:]
        return ArrV(self.n, self.w, self.fill, self.base, None, chunks)

    def complete(self):
        if self.n > (1 << 20):
            return False
        for ci, c in enumerate(self.chunks):
            if c is None:
                return False
            lim = min(self.CH, self.n - (ci << 5))
            for j in range(lim):
                if c[j] is None:
                    return False
        return True

    def to_term(self):
        if self._term is not None:
            return self._term
        if self.w is None:
            raise Unsupported("symbolic index into array of aggregates")
        if self.base is None and self.fill is None or self.complete():
            if not self.complete():
                raise Unsupported("array with unset elements")
            flat = []
            for c in self.chunks:
                flat.extend(c)
            t = T.arr_lit(tuple(flat[:self.n]))
        elif self.base is not None:
            base = self.base
            items = []
            for i, v in sorted(self.elems.items()):
                if v is T.select(base, T.const(i, 64), self.w):
                    continue
                items.append((i, v))
            t = T.arr_overlay(base, tuple(items))
        else:
            fillt = self.fill
            base = T.atom("arrfill", self.w, (fillt,), self.n)
            items = tuple((i, v) for i, v in sorted(self.elems.items()) if v is not fillt)
            t = T.arr_overlay(base, items)
        self._term = t
        return t

    def select(self, idx):
        if idx.op == "const":
            return self.get(idx.aux)
        return T.select(self.to_term(), idx, self.w)

    def store(self, idx, v):
        if idx.op == "const":
            return self.set(idx.aux, v)
        return ArrV(self.n, self.w, None, T.arr_store(self.to_term(), idx, v), {})

    def all_elems(self):
        return [self.get(i) for i in range(self.n)]

    def __repr__(self):
        return "ArrV(n=%d)" % (self.n,)


class Ref(object):
    """pointer to (obj, path); win = (start, len) for slices (ints or terms)"""
    __slots__ = ("obj", "path", "win", "mut")

    def __init__(self, obj, path, win=None, mut=False):
        self.obj = obj
        self.path = path
        self.win = win
        self.mut = mut

    def same(self, o):
        return isinstance(o, Ref) and self.obj == o.obj and self.path == o.path and _win_eq(self.win, o.win)

    def __repr__(self):
        return "Ref(%r,%r,%r)" % (self.obj, self.path, self.win)


def _win_eq(a, b):
    if a is None or b is None:
        return a is b
    return all((x is y) or (x == y and not isinstance(x, T.T)) for x, y in zip(a, b))


class FnV(object):
    __slots__ = ("callee",)

    def __init__(self, callee):
        self.callee = callee


class ClosureV(object):
    __slots__ = ("defpath", "upvars", "key")

    def __init__(self, defpath, upvars, key=None):
        self.defpath = defpath
        self.upvars = tuple(upvars)
        self.key = key  # body of this instantiation (the enclosing function's generic arguments applied)


class PrimV(object):
    """immutable library object (iterator state, ...)"""
    __slots__ = ("kind", "data")

    def __init__(self, kind, data):
        self.kind = kind
        self.data = data

    def __repr__(self):
        return "Prim(%s,%r)" % (self.kind, self.data)


class Lazy(object):
    """not yet materialised symbolic value of a type"""
    __slots__ = ("ty", "name")

    def __init__(self, ty, name):
        self.ty = ty
        self.name = name


class OpaqueV(object):
    """a value we know nothing about and cannot look into (e.g. a type parameter)"""
    __slots__ = ("ty", "token")

    def __init__(self, ty, token):
        self.ty = ty
        self.token = token

    def __repr__(self):
        return "Opaque(%s)" % (self.token,)


# ------------------------------------------------------------------ state


class State(object):
    __slots__ = ("objs", "world", "assume", "next_obj")

    def __init__(self):
        self.objs = {}
        self.world = T.sym("world0", 1)
        self.assume = ()
        self.next_obj = [0]

    def fork(self):
        s = State.__new__(State)
        s.objs = dict(self.objs)
        s.world = self.world
        s.assume = self.assume
        s.next_obj = self.next_obj
        return s

    def alloc(self, v, tag="o"):
        self.next_obj[0] += 1
        oid = (tag, self.next_obj[0])
        self.objs[oid] = v
        return oid


def add_assume(st, c):
    """record that the 1-bit term c holds on this path (conjunctions are split)"""
    if c.op == "const":
        return
    if c.op == "and1":
        st.assume = st.assume + tuple(x for x in c.args if x not in st.assume)
    elif c not in st.assume:
        st.assume = st.assume + (c,)


class Frame(object):
    __slots__ = ("body", "locs", "cfg", "depth", "active", "progress", "nest", "inloop", "iters", "loop_progress")

    def __init__(self, body, locs, cfg, depth):
        self.body = body
        self.locs = locs
        self.cfg = cfg
        self.depth = depth
        self.active = {}  # symbolic switch block -> constant-progress counter when it was entered
        self.nest = {}
        self.inloop = set()
        self.iters = {}
        self.loop_progress = {}
        self.progress = 0  # number of switches decided by constants so far (loop tests of constant-trip loops)


class AssertRec(object):
    __slots__ = ("body", "bb", "kind", "span", "cond", "expected", "ops", "chain", "discharged", "how")

    def __init__(self, **kw):
        for k, v in kw.items():
            setattr(self, k, v)


class Evaluator(object):
    def __init__(self, crate, prims=None, max_depth=40, max_steps=400000):
        self.crate = crate  # facts of one crate (dict)
        self.tys = crate["tys"]
        self.bodies = crate["bodies"]
        from . import prims as P
        self.prims = prims if prims is not None else P.TABLE
        self.P = P
        self.max_depth = max_depth
        self.max_steps = max_steps
        self.steps = 0
        self.asserts = []  # AssertRec
        self.calls = []  # (caller key, callee path, span) of opaque calls
        self._dec_ctx = None
        self.loop_intervals = True  # loop summaries carry interval invariants (needed to discharge asserts, not to compare effects)
        self.neutral_crates = set()  # crates whose opaque calls do not advance the world token (see C18)
        self.local_names = {}  # oid of a frame local -> (function def path, source variable name or None)
        self.overrides = {}  # def path or key -> handler(ev, st, callee, args, argops, dest_ty) -> value
        self.no_inline = set()  # body keys / def paths kept opaque
        self.chain = []
        self._cfgs = {}
        self.opaque_counter = 0
        self.trace_calls = []
        self.panics = []  # reachable explicit panic calls
        self.fmt_calls = []  # formatting sinks reached (C17)
        self.fmt_followed = []
        self.unroll_limit = 1100
        self.summarise_loops = False
        self.loops_log = []
        self.loop_counter = 0
        self.pure_memo = {}
        self.pure_summ = {}
        self.static_reads = []
        self.dead_ends = []

    # -------------------------------------------------------------- types
    def ty(self, i):
        return self.tys[i]

    def scalar_width(self, tyid):
        t = self.tys[tyid]
        k = t["k"]
        if k == "int":
            return t["bits"]
        if k == "bool":
            return 1
        if k == "char":
            return 32
        return None

    def is_signed(self, tyid):
        t = self.tys[tyid]
        return t["k"] == "int" and t["signed"]

    def single_field_struct(self, tyid):
        t = self.tys[tyid]
        return t["k"] == "adt" and t["adt_kind"] == "struct" and len(t["variants"][0]["fields"]) == 1

    def strip_newtypes(self, tyid):
        while self.single_field_struct(tyid):
            tyid = self.tys[tyid]["variants"][0]["fields"][0]["ty"]
        return tyid

    def symbolic(self, tyid, name, leaves=None, big_arrays_as_terms=True):
        """fully materialised symbolic value of a type; scalar leaves appended to `leaves`"""
        t = self.tys[tyid]
        k = t["k"]
        w = self.scalar_width(tyid)
        if w is not None:
            s = T.sym(name, w)
            if leaves is not None:
                leaves.append(s)
            return s
        if k == "adt":
            if t["adt_kind"] == "struct":
                fs = t["variants"][0]["fields"]
                if len(fs) == 1:
                    return self.symbolic(fs[0]["ty"], name, leaves, big_arrays_as_terms)
                return Struct([self.symbolic(f["ty"], "%s.%s" % (name, f["name"]), leaves, big_arrays_as_terms) for f in fs])
            if t["adt_kind"] == "enum" and 1 <= len(t["variants"]) <= 8:
                nv = len(t["variants"])
                d = T.atom("rng", 64, (), (name + ".discr", (0, nv - 1))) if nv > 1 else 0
                if leaves is not None and nv > 1:
                    leaves.append(d)
                pay = {}
                for i, v in enumerate(t["variants"]):
                    pay[i] = tuple(self.symbolic(f["ty"], "%s.%s.%s" % (name, v.get("name", i), f["name"]), leaves, big_arrays_as_terms)
                                   for f in v["fields"])
                return EnumV(d, pay)
            return OpaqueV(tyid, name)
        if k == "tuple":
            return Struct([self.symbolic(e, "%s.%d" % (name, i), leaves, big_arrays_as_terms) for i, e in enumerate(t["elems"])])
        if k == "array":
            n = t["len"]
            if n is None:
                raise Unsupported("array of generic length %s (an uninstantiated generic function)" % t["s"])
            ew = self.scalar_width(self.strip_newtypes(t["elem"]))
            if ew is not None and (n > 64 and big_arrays_as_terms):
                base = T.arr_sym(name, n, ew)
                if leaves is not None:
                    leaves.append(base)
                return ArrV(n, ew, None, base, {})
            elems = {i: self.symbolic(t["elem"], "%s[%d]" % (name, i), leaves, big_arrays_as_terms) for i in range(n)}
            return ArrV(n, ew, None, None, elems)
        return OpaqueV(tyid, name)

    def zero_value(self, tyid):
        t = self.tys[tyid]
        w = self.scalar_width(tyid)
        if w is not None:
            return T.const(0, w)
        raise Unsupported("zero_value of %s" % t["s"])

    # ----------------------------------------------------------- memory
    def read_path(self, st, v, path):
        for i, step in enumerate(path):
            if isinstance(v, Lazy):
                v = self.symbolic(v.ty, v.name)
            k = step[0]
            if k == "f":
                if isinstance(v, Struct):
                    v = v.fields[step[1]]
                elif isinstance(v, ClosureV):
                    v = v.upvars[step[1]]
                elif isinstance(v, OpaqueV):
                    return OpaqueV(None, "%s.%d" % (v.token, step[1]))
                else:
                    raise Unsupported("field of %r" % (v,))
            elif k == "i":
                if isinstance(v, ArrV):
                    if not (0 <= step[1] < v.n):
                        raise Unsupported("constant index %d out of bounds %d" % (step[1], v.n))
                    v = v.get(step[1])
                else:
                    raise Unsupported("index of %r" % (v,))
            elif k == "ix":
                if isinstance(v, ArrV):
                    v = v.select(step[1])
                else:
                    raise Unsupported("index of %r" % (v,))
            elif k == "v":
                if isinstance(v, EnumV):
                    p = v.payloads.get(step[1])
                    if p is None:
                        raise Unsupported("downcast to absent variant")
                    v = Struct(p)
                else:
                    raise Unsupported("downcast of %r" % (v,))
            else:
                raise Unsupported("path step %r" % (step,))
        if isinstance(v, Lazy):
            v = self.symbolic(v.ty, v.name)
        return v

    def write_path(self, v, path, new):
        if not path:
            return new
        if isinstance(v, Lazy):
            v = self.symbolic(v.ty, v.name)
        step = path[0]
        k = step[0]
        if k == "f":
            if isinstance(v, Struct):
                fs = list(v.fields)
                fs[step[1]] = self.write_path(fs[step[1]], path[1:], new)
                return Struct(fs)
            if isinstance(v, ClosureV):
                fs = list(v.upvars)
                fs[step[1]] = self.write_path(fs[step[1]], path[1:], new)
                return ClosureV(v.defpath, fs, v.key)
            raise Unsupported("write field of %r" % (v,))
        if k == "i":
            if isinstance(v, ArrV):
                return v.set(step[1], self.write_path(v.get(step[1]), path[1:], new))
            raise Unsupported("write index of %r" % (v,))
        if k == "ix":
            if isinstance(v, ArrV):
                if len(path) > 1:
                    raise Unsupported("nested write under symbolic index")
                return v.store(step[1], new)
            raise Unsupported("write index of %r" % (v,))
        if k == "v":
            if isinstance(v, EnumV):
                p = dict(v.payloads)
                p[step[1]] = self.write_path(Struct(p.get(step[1], ())), path[1:], new).fields
                return EnumV(v.discr, p)
        raise Unsupported("write path step %r on %r" % (step, v))

    def load(self, st, ref):
        return self.read_path(st, st.objs[ref.obj], ref.path)

    def store(self, st, ref, val):
        st.objs[ref.obj] = self.write_path(st.objs[ref.obj], ref.path, val)

    # ----------------------------------------------------------- places
    def place_ty(self, fr, place):
        ty = fr.body["locals"][place[0]]
        for e in place[1]:
            k = e[0]
            t = self.tys[ty]
            if k == "d":
                ty = t["to"]
            elif k == "f":
                ty = e[2]
            elif k in ("i", "c"):
                ty = t["elem"]
            elif k == "v":
                pass
            elif k == "s":
                pass
        return ty

    def resolve(self, st, fr, place):
        """-> Ref (with win for slice targets)"""
        local, proj = place
        obj = fr.locs[local]
        path = ()
        win = None
        ty = fr.body["locals"][local]
        for e in proj:
            k = e[0]
            t = self.tys[ty]
            if k == "d":
                v = self.read_path(st, st.objs[obj], path)
                if isinstance(v, OpaqueV) and not str(v.token).startswith("loop-poison"):
                    # a reference we know nothing about (captured by a closure, field of an opaque value): give it an opaque target
                    # once, and remember it so that later dereferences see the same object
                    tgt = st.alloc(OpaqueV(t.get("to"), "%s.*" % v.token), "opq")
                    v = Ref(tgt, (), None, bool(t.get("mut")))
                    try:
                        st.objs[obj] = self.write_path(st.objs[obj], path, v)
                    except Unsupported:
                        pass
                if not isinstance(v, Ref):
                    raise Unsupported("deref of %r in %s" % (v, fr.body["key"]))
                obj, path, win = v.obj, v.path, v.win
                ty = t["to"]
            elif k == "f":
                if t["k"] == "adt" and t["adt_kind"] == "struct" and len(t["variants"][0]["fields"]) == 1:
                    pass  # newtype: transparent
                else:
                    path = path + (("f", e[1]),)
                ty = e[2]
            elif k == "i":
                iv = self.read_path(st, st.objs[fr.locs[e[1]]], ())
                path, win = self._index(path, win, iv)
                ty = t["elem"]
            elif k == "c":
                if e[3]:
                    raise Unsupported("from_end constant index")
                path, win = self._index(path, win, T.const(e[1], 64))
                ty = t["elem"]
            elif k == "v":
                path = path + (("v", e[1]),)
            else:
                raise Unsupported("projection %r" % (e,))
        return Ref(obj, path, win), ty

    def _index(self, path, win, iv):
        if win is not None:
            start = win[0]
            if isinstance(start, int):
                start = T.const(start, 64)
            iv = T.add(start, iv)
        if iv.op == "const":
            return path + (("i", iv.aux),), None
        return path + (("ix", iv),), None

    def read_place(self, st, fr, place):
        r, ty = self.resolve(st, fr, place)
        if r.win is not None:
            raise Unsupported("read of unsized place")
        return self.read_path(st, st.objs[r.obj], r.path)

    def write_place(self, st, fr, place, val):
        r, ty = self.resolve(st, fr, place)
        if r.win is not None:
            raise Unsupported("write of unsized place")
        st.objs[r.obj] = self.write_path(st.objs[r.obj], r.path, val)

    # --------------------------------------------------------- constants
    def const_value(self, st, c):
        tyid = c["ty"]
        t = self.tys[tyid]
        if "fn" in c:
            return FnV(c["fn"])
        if "int" in c:
            w = self.scalar_width(self.strip_newtypes(tyid))
            if w is None:
                raise Unsupported("int const of type %s" % t["s"])
            return T.const(int(c["int"]), w)
        if "zst" in c:
            if t["k"] == "closure":
                return ClosureV(t["def"], (), t.get("body"))
            if t["k"] == "fndef":
                return FnV({"def": t["def"], "path": t["path"], "res": None})
            return UNIT
        if "ptr" in c:
            info = c["ptr"]
            if "bytes" in info:
                try:
                    v = self.decode_bytes(bytes.fromhex(info["bytes"]), t["to"])
                except Unsupported:
                    return Ref(st.alloc(OpaqueV(t["to"], "const:" + info["bytes"][:16]), "const"), ())
                oid = st.alloc(v, "const")
                pt = self.tys[t["to"]]
                if pt["k"] in ("slice", "str"):
                    return Ref(oid, (), (0, v.n if isinstance(v, ArrV) else None))
                return Ref(oid, ())
            if "static" in info:
                oid = ("static", info["static"])
                if oid not in st.objs:
                    v_ = None
                    if info.get("immutable") and "bytes" in info:
                        # a read-only table: its value is its initialiser
                        try:
                            v_ = self.decode_bytes(bytes.fromhex(info["bytes"]), t["to"])
                        except Unsupported:
                            v_ = None
                    st.objs[oid] = v_ if v_ is not None else OpaqueV(t.get("to"), "static:" + info["static"])
                return Ref(oid, ())
            raise Unsupported("pointer constant %r" % (info,))
        if "mem" in c:
            try:
                self._dec_ctx = (st, {p_["at"]: p_ for p_ in c["mem"].get("ptrs", [])})
                return self.decode_bytes(bytes.fromhex(c["mem"]["bytes"]), tyid)
            except Unsupported:
                return OpaqueV(tyid, "const:" + c["mem"]["bytes"][:16])
            finally:
                self._dec_ctx = None
        if "slice" in c:
            b = bytes.fromhex(c["slice"]["bytes"])
            n = c.get("meta", len(b))
            arr = ArrV(n, 8, None, None, {i: T.const(b[i], 8) for i in range(min(n, len(b)))})
            oid = st.alloc(arr, "const")
            return Ref(oid, (), (0, n))
        raise Unsupported("constant %r" % (c,))

    def decode_bytes(self, b, tyid, off=0):
        v, _ = self._decode(b, tyid, off)
        return v

    def _decode(self, b, tyid, off):
        t = self.tys[tyid]
        w = self.scalar_width(tyid)
        if w is not None:
            n = max(1, w // 8)
            return T.const(int.from_bytes(b[off:off + n], "little"), w), off + n
        k = t["k"]
        if k == "array":
            elems = {}
            for i in range(t["len"]):
                elems[i], off = self._decode(b, t["elem"], off)
            ew = self.scalar_width(self.strip_newtypes(t["elem"]))
            return ArrV(t["len"], ew, None, None, elems), off
        if k == "slice" or k == "str":
            et = t.get("elem")
            if k == "str":
                arr = ArrV(len(b) - off, 8, None, None, {i: T.const(b[off + i], 8) for i in range(len(b) - off)})
                return arr, len(b)
            ew = self.scalar_width(self.strip_newtypes(et))
            n = (len(b) - off) // max(1, ew // 8)
            elems = {}
            for i in range(n):
                elems[i], off = self._decode(b, et, off)
            return ArrV(n, ew, None, None, elems), off
        if k == "adt" and t["adt_kind"] == "struct" and len(t["variants"][0]["fields"]) == 1:
            return self._decode(b, t["variants"][0]["fields"][0]["ty"], off)
        if k in ("ref", "ptr") and getattr(self, "_dec_ctx", None):
            # a pointer stored inside a constant: the fact extractor recorded the allocation it points into
            st, ptrs = self._dec_ctx
            pinfo = ptrs.get(off)
            if pinfo is None or "bytes" not in pinfo["to"]:
                raise Unsupported("pointer constant without a known target")
            tb = bytes.fromhex(pinfo["to"]["bytes"])
            pt = self.tys[t["to"]]
            saved = self._dec_ctx
            self._dec_ctx = (st, {p_["at"]: p_ for p_ in pinfo["to"].get("ptrs", [])})
            try:
                if pt["k"] == "slice":
                    n = int.from_bytes(b[off + 8:off + 16], "little")
                    elems = {}
                    o2 = pinfo["addend"]
                    for i in range(n):
                        elems[i], o2 = self._decode(tb, pt["elem"], o2)
                    ew = self.scalar_width(self.strip_newtypes(pt["elem"]))
                    oid = st.alloc(ArrV(n, ew, None, None, elems), "const")
                    return Ref(oid, (), (0, n)), off + 16
                v, _ = self._decode(tb, t["to"], pinfo["addend"])
                return Ref(st.alloc(v, "const"), ()), off + 8
            finally:
                self._dec_ctx = saved
        if k == "adt" and t["adt_kind"] == "enum" and t.get("enum_layout"):
            # a directly tagged enum: the tag selects the variant; only field-less variants are decoded
            el = t["enum_layout"]
            tag = int.from_bytes(b[off + el["tag_offset"]:off + el["tag_offset"] + el["tag_size"]], "little")
            m_ = (1 << (8 * el["tag_size"])) - 1
            idx = next((i for i, d in enumerate(el["discrs"]) if (int(d) & m_) == tag), None)
            if idx is not None and not t["variants"][idx]["fields"]:
                return EnumV(idx, {idx: ()}), off + el["size"]
            raise Unsupported("decode constant of enum type %s" % t["s"])
        # tuples and structs: field offsets and size come from the compiler's layout (the fact extractor records them)
        if t.get("offsets") is not None and t.get("size") is not None:
            ftys = t["elems"] if k == "tuple" else ([f["ty"] for f in t["variants"][0]["fields"]] if k == "adt" and t["adt_kind"] == "struct" else None)
            if ftys is not None and len(ftys) == len(t["offsets"]):
                vals = [self._decode(b, fty, off + o)[0] for fty, o in zip(ftys, t["offsets"])]
                return Struct(vals), off + t["size"]
        raise Unsupported("decode constant of type %s" % t["s"])

    # ----------------------------------------------------------- operands
    def operand(self, st, fr, o):
        k = o[0]
        if k == "cp" or k == "mv":
            return self.read_place(st, fr, o[1])
        if k == "k":
            return self.const_value(st, o[1])
        if k == "rtc":
            # runtime checks (ub_checks etc.): evaluated as disabled
            return T.FALSE
        raise Unsupported("operand %r" % (o,))

    def operand_ty(self, fr, o):
        if o[0] in ("cp", "mv"):
            return self.place_ty(fr, o[1])
        if o[0] == "k":
            return o[1]["ty"]
        return None

    # ------------------------------------------------------------ rvalues
    def binop(self, op, a, b, signed, st=None):
        if not (isinstance(a, T.T) and isinstance(b, T.T)):
            if op in ("Eq", "Ne") and isinstance(a, Ref) and isinstance(b, Ref):
                r = T.TRUE if a.same(b) else T.FALSE
                return r if op == "Eq" else T.bnot(r)
            raise Unsupported("binop %s on %r, %r" % (op, a, b))
        w = a.w
        if op in ("Shl", "Shr", "ShlUnchecked", "ShrUnchecked"):
            # shift amount: any integer type, masked to the width
            if b.op == "const":
                k = b.aux & (w - 1)
                if op.startswith("Shl"):
                    return T.shl(a, k)
                return T.ashr(a, k) if signed else T.lshr(a, k)
            amt = T.and_const(b, w - 1)
            amt = T.zext(amt, w) if amt.w < w else T.trunc(amt, w)
            if op.startswith("Shl"):
                return T.shl_var(a, amt)
            if signed:
                return T.atom("ashrv", w, (a, amt))
            return T.lshr_var(a, amt)
        if a.w != b.w:
            raise Unsupported("binop width mismatch %s %r %r" % (op, a, b))
        if op in ("Add", "AddUnchecked"):
            return T.add(a, b)
        if op in ("Sub", "SubUnchecked"):
            return T.sub(a, b)
        if op in ("Mul", "MulUnchecked"):
            return T.mul(a, b)
        if op == "BitXor":
            return T.xor(a, b)
        if op == "BitAnd":
            return T.band(a, b)
        if op == "BitOr":
            return T.bor(a, b)
        if op == "Eq":
            return T.eq(a, b)
        if op == "Ne":
            return T.ne(a, b)
        if op == "Lt":
            return self.lt(st, a, b, signed)
        if op == "Gt":
            return self.lt(st, b, a, signed)
        if op == "Le":
            return T.bnot(self.lt(st, b, a, signed))
        if op == "Ge":
            return T.bnot(self.lt(st, a, b, signed))
        if op == "Div":
            return T.sdiv(a, b) if signed else T.udiv(a, b)
        if op == "Rem":
            return T.srem(a, b) if signed else T.urem(a, b)
        if op in ("AddWithOverflow", "SubWithOverflow", "MulWithOverflow"):
            base = op[:3]
            val = {"Add": T.add, "Sub": T.sub, "Mul": T.mul}[base](a, b)
            ovf = self.overflow_flag(st, base, a, b, signed)
            return Struct((val, ovf))
        raise Unsupported("binop %s" % op)

    def lt(self, st, a, b, signed):
        r = T.slt(a, b) if signed else T.ult(a, b)
        if r.op == "const" or st is None:
            return r
        # refine with path assumptions
        return self.P.refine_cmp(self, st, r, a, b, signed)

    def overflow_flag(self, st, base, a, b, signed):
        return self.P.overflow_flag(self, st, base, a, b, signed)

    def cast(self, st, fr, kind, val, src_ty, dst_ty):
        dt = self.tys[dst_ty]
        if kind == "IntToInt":
            if not isinstance(val, T.T):
                raise Unsupported("IntToInt of %r" % (val,))
            dw = self.scalar_width(dst_ty)
            if dw == val.w:
                return val
            if dw < val.w:
                return T.trunc(val, dw)
            if src_ty is not None and self.is_signed(src_ty):
                return T.sext(val, dw)
            return T.zext(val, dw)
        if kind.startswith("PointerCoercion(Unsize"):
            if isinstance(val, Ref):
                st_ty = self.tys[src_ty] if src_ty is not None else None
                if st_ty and st_ty["k"] in ("ref", "ptr"):
                    pointee = self.tys[self.strip_newtypes(st_ty["to"])]
                    if pointee["k"] == "array" and self.tys[dt["to"]]["k"] == "slice":
                        return Ref(val.obj, val.path, (0, pointee["len"]), val.mut)
                return val  # dyn coercions: keep the pointer
            raise Unsupported("unsize of %r" % (val,))
        if kind.startswith("PointerCoercion"):
            return val
        if kind in ("PtrToPtr", "FnPtrToPtr"):
            if isinstance(val, Ref):
                # reinterpretation of the pointee type (e.g. *mut [w32] as *mut u8): keep target, mark type
                return PrimV("castptr", (val, src_ty, dst_ty)) if not self._same_layout(src_ty, dst_ty) else val
            return val
        if kind == "Transmute":
            if isinstance(val, (Ref, PrimV)):
                return val
            if isinstance(val, T.T) and self.scalar_width(dst_ty) == val.w:
                return val
            raise Unsupported("transmute of %r" % (val,))
        if kind in ("PointerExposeProvenance", "PointerWithExposedProvenance"):
            return OpaqueV(dst_ty, "ptr-int")
        raise Unsupported("cast kind %s" % kind)

    def _same_layout(self, a, b):
        if a is None or b is None:
            return True
        ta, tb = self.tys[a], self.tys[b]
        if ta["k"] in ("ref", "ptr") and tb["k"] in ("ref", "ptr"):
            pa = self.strip_newtypes(ta["to"])
            pb = self.strip_newtypes(tb["to"])
            if pa == pb:
                return True
            qa, qb = self.tys[pa], self.tys[pb]
            if qa["k"] == qb["k"] == "array" or qa["k"] == qb["k"] == "slice":
                return self.strip_newtypes(qa["elem"]) == self.strip_newtypes(qb["elem"])
            # pointer to array -> pointer to its first element of the same type: keep (used by as_mut_ptr paths)
            return False
        return True

    def rvalue(self, st, fr, rv, dest_ty):
        k = rv[0]
        if k == "use":
            return self.operand(st, fr, rv[1])
        if k == "bin":
            a = self.operand(st, fr, rv[2])
            b = self.operand(st, fr, rv[3])
            aty = self.operand_ty(fr, rv[2])
            signed = aty is not None and self.is_signed(self.strip_newtypes(aty))
            return self.binop(rv[1], a, b, signed, st)
        if k == "un":
            a = self.operand(st, fr, rv[2])
            if rv[1] == "Not":
                return T.bnot(a)
            if rv[1] == "Neg":
                return T.neg(a)
            if rv[1] == "PtrMetadata":
                if isinstance(a, Ref) and a.win is not None:
                    n = a.win[1]
                    return n if isinstance(n, T.T) else T.const(n, 64)
                raise Unsupported("PtrMetadata of %r" % (a,))
            raise Unsupported("unop %s" % rv[1])
        if k == "cast":
            v = self.operand(st, fr, rv[2])
            if len(rv) > 4 and "vtable" in rv[4] and isinstance(v, Ref):
                inner = v
                for _ in range(rv[4].get("peeled", 0)):
                    nxt = self.load(st, inner)
                    if not isinstance(nxt, Ref):
                        break
                    inner = nxt
                return PrimV("dyn", (inner, rv[4]["vtable"], rv[4]["dyn_trait"], v))
            return self.cast(st, fr, rv[1], v, self.operand_ty(fr, rv[2]), rv[3])
        if k == "ref" or k == "raw":
            pl = rv[2]
            if len(pl[1]) == 1 and pl[1][0][0] == "d":
                base = self.read_path(st, st.objs[fr.locs[pl[0]]], ())
                if isinstance(base, PrimV) and base.kind in ("byteview", "dyn", "castptr"):
                    return base  # reborrow of a library pointer object
            r, ty = self.resolve(st, fr, rv[2])
            mut = rv[1] is True or (k == "raw" and "Mut" in str(rv[1]))
            return Ref(r.obj, r.path, r.win, mut)
        if k == "agg":
            kind = rv[1]
            ops = [self.operand(st, fr, o) for o in rv[2]]
            kk = kind["k"]
            if kk == "array":
                ew = self.scalar_width(self.strip_newtypes(kind["elem"]))
                return ArrV(len(ops), ew, None, None, {i: v for i, v in enumerate(ops)})
            if kk == "tuple":
                return Struct(ops)
            if kk == "closure":
                return ClosureV(kind["def"], ops, self.tys[kind["ty"]].get("body") if "ty" in kind else None)
            if kk == "adt":
                t = self.tys[kind["ty"]]
                if t["adt_kind"] == "struct":
                    if len(ops) == 1:
                        return ops[0]
                    return Struct(ops)
                if t["adt_kind"] == "enum":
                    return EnumV(kind["variant"], {kind["variant"]: tuple(ops)})
                raise Unsupported("union aggregate")
            if kk == "rawptr":
                return PrimV("rawparts", tuple(ops))
            raise Unsupported("aggregate %r" % (kind,))
        if k == "rep":
            v = self.operand(st, fr, rv[1])
            n = rv[2]
            if n is None:
                raise Unsupported("repeat with unknown count")
            w = v.w if isinstance(v, T.T) else None
            return ArrV(n, w, v, None, {})
        if k == "discr":
            v = self.read_place(st, fr, rv[1])
            w = self.scalar_width(dest_ty) or 64
            if isinstance(v, EnumV):
                if isinstance(v.discr, int):
                    return T.const(v.discr, w)
                return T.trunc(v.discr, w) if v.discr.w > w else (T.zext(v.discr, w) if v.discr.w < w else v.discr)
            raise Unsupported("discriminant of %r" % (v,))
        if k == "tlref":
            raise Unsupported("thread-local reference %s" % rv[1])
        raise Unsupported("rvalue %s" % k)

    # ---------------------------------------------------------- execution
    def cfg_of(self, body):
        c = self._cfgs.get(body["key"])
        if c is None:
            c = CFG(body)
            self._cfgs[body["key"]] = c
        return c

    def call_body(self, st, key, args, depth=0):
        """inline-evaluate body `key` with argument values; -> return value (st is updated in place)"""
        body = self.bodies[key]
        if depth > self.max_depth:
            raise Unsupported("inlining depth exceeded at %s" % key)
        if body["kind"] == "Closure" and len(args) != body["argc"] and args and isinstance(args[-1], Struct):
            args = list(args[:-1]) + list(args[-1].fields)  # rust-call ABI: untuple
        if len(args) != body["argc"]:
            raise Unsupported("argument count mismatch calling %s: %d vs %d" % (key, len(args), body["argc"]))
        locs = []
        for i in range(len(body["locals"])):
            locs.append(st.alloc(None, "l"))
        for i, a in enumerate(args):
            st.objs[locs[i + 1]] = a
        nm = body["names"]
        for i, l in enumerate(locs):
            self.local_names[l] = (body["def"], nm.get(str(i)))
        fr = Frame(body, locs, self.cfg_of(body), depth)
        self.chain.append(key)
        try:
            outs = self.run(st, fr, 0, frozenset())
        finally:
            self.chain.pop()
        rets = [o for o in outs if o.how == "ret"]
        if not rets:
            raise Diverged(key)
        st2 = self.merge_outs(rets, st.assume)
        st.objs = st2.objs
        st.world = st2.world
        st.assume = st2.assume
        rv = st.objs[locs[0]]
        for l in locs:
            st.objs.pop(l, None)
            self.local_names.pop(l, None)
        return rv if rv is not None else UNIT

    def call_pure(self, st, key, args, depth):
        """a callee whose arguments are all scalars is summarised once on symbolic parameters; when the summary has
        no effect besides its scalar value and every assert in it folded to a constant, calls are answered by
        substituting the actual arguments into the summary (what a compiler's inliner + GVN would produce)"""
        sig = (key, tuple(a.w for a in args))
        summ = self.pure_summ.get(sig)
        if summ is None:
            params = [T.sym("param%d:%s" % (i, key.split("::")[-1]), a.w) for i, a in enumerate(args)]
            m = (len(self.asserts), len(self.calls), len(self.panics), len(self.loops_log), len(self.fmt_calls))
            st2 = State()
            st2.next_obj = st.next_obj
            ok = True
            try:
                rv = self.call_body(st2, key, params, depth)
            except (Unsupported, SymbolicLoop, Diverged):
                ok = False
                rv = None
            new_asserts = self.asserts[m[0]:]
            ok = ok and isinstance(rv, T.T) and len(self.calls) == m[1] and len(self.panics) == m[2] \
                and len(self.loops_log) == m[3] and len(self.fmt_calls) == m[4] and st2.world is T.sym("world0", 1) \
                and all(a.discharged and a.how == "const" for a in new_asserts)
            logs = list(new_asserts)
            del self.asserts[m[0]:]
            del self.calls[m[1]:]
            del self.panics[m[2]:]
            del self.loops_log[m[3]:]
            del self.fmt_calls[m[4]:]
            summ = (params, rv, logs) if ok else False
            self.pure_summ[sig] = summ
        if summ is False:
            return self.call_body(st, key, args, depth)
        params, rv, logs = summ
        self.asserts.extend(logs)
        return T.subst(rv, dict(zip(params, args)))

    def merge_outs(self, outs, assume):
        """merge outcomes that ended at the same place (conds are mutually exclusive)"""
        merged = outs[-1].st
        for o in reversed(outs[:-1]):
            merged = self.merge_states(o.cond, o.st, merged)
        if len(outs) > 1:
            merged.assume = assume
        return merged

    def group_outs(self, outs, assume):
        """one outcome per distinct (how, at)"""
        if len(outs) <= 1:
            return outs
        groups = {}
        order = []
        for o in outs:
            k = (o.how, o.at)
            if k not in groups:
                groups[k] = []
                order.append(k)
            groups[k].append(o)
        res = []
        for k in order:
            g = groups[k]
            if len(g) == 1:
                res.append(g[0])
            else:
                res.append(Out(T.or1([o.cond for o in g]), self.merge_outs(g, assume), k[0], k[1]))
        return res

    def run(self, st, fr, bb, stops, skip_header=None, pred=None):
        """execute from bb until a block in `stops`, a return, or divergence.
        -> list of Out(cond, state, how, at); cond is relative to the entry of this run"""
        body = fr.body
        blocks = body["blocks"]
        pending = []
        cur = T.TRUE
        entry_assume = st.assume
        loops = fr.cfg.loops
        prev_bb = pred
        while True:
            if bb in stops and bb != skip_header:
                pending.append(Out(cur, st, "stop", bb))
                return self.group_outs(pending, entry_assume)
            if bb in loops and bb != skip_header and not (prev_bb is not None and prev_bb in loops[bb]):
                outs = self.enter_loop(st, fr, bb, stops)
                for o in outs:
                    pending.append(Out(T.and1([cur, o.cond]), o.st, o.how, o.at))
                return self.group_outs(pending, entry_assume)
            skip_header = None
            if bb in fr.inloop:
                fr.iters[bb] = fr.iters.get(bb, 0) + 1
                if fr.iters[bb] > self.unroll_limit:
                    raise SymbolicLoop(body["key"], bb, None, fr, "unroll limit")
            self.steps += 1
            if self.steps > self.max_steps:
                raise Unsupported("step budget exceeded in %s" % body["key"])
            blk = blocks[bb]
            for s in blk["s"]:
                self.statement(st, fr, s)
            t = blk["t"]
            k = t[0]
            prev_bb = bb
            if k == "goto":
                bb = t[1]
            elif k == "ret":
                pending.append(Out(cur, st, "ret", None))
                return self.group_outs(pending, entry_assume)
            elif k == "unreachable":
                return self.group_outs(pending, entry_assume)
            elif k == "drop":
                bb = t[2]
            elif k == "assert":
                cond = self.operand(st, fr, t[1])
                exp = T.TRUE if t[2] else T.FALSE
                self.record_assert(st, fr, bb, t, cond, exp)
                if cond.op == "const" and cond is not exp:
                    self.dead_ends.append(("assert", body["key"], bb, t[3], t[5][0]))
                    return self.group_outs(pending, entry_assume)  # always fails: this path panics
                if cond.op != "const":
                    add_assume(st, cond if t[2] else T.bnot(cond))
                bb = t[4]
            elif k == "call":
                nxt = self.do_call(st, fr, bb, t)
                if nxt is None:
                    self.dead_ends.append(("call", body["key"], bb, (t[1].get("rpath") or t[1].get("path")), t[5][0]))
                    return self.group_outs(pending, entry_assume)
                bb = nxt
            elif k == "switch":
                v = self.operand(st, fr, t[1])
                if not isinstance(v, T.T):
                    raise Unsupported("switch on %r" % (v,))
                arms = [(int(x), tb) for x, tb in t[2]]
                other = t[3]
                if v.op == "const":
                    fr.progress += 1
                    h_ = fr.cfg.innermost.get(bb)
                    if h_ is not None:
                        fr.loop_progress[h_] = fr.loop_progress.get(h_, 0) + 1
                    bb = other
                    for x, tb in arms:
                        if x == v.aux:
                            bb = tb
                            break
                    continue
                dec = self.decide_switch(st, v, arms, other)
                if dec is not None:
                    bb = dec
                    continue
                # symbolic branch: fork; merge again at the immediate post-dominator
                prev = fr.active.get(bb)
                myloop = fr.cfg.innermost.get(bb)
                prog_now = fr.loop_progress.get(myloop, 0) if myloop is not None else fr.progress
                if prev is not None and (prev == prog_now or fr.nest.get(bb, 0) > 4200):
                    # re-entered without passing a constant-decided test of the same loop: a loop with a symbolic exit
                    raise SymbolicLoop(body["key"], bb, v, fr, "symbolic exit")
                join = fr.cfg.ipdom.get(bb)
                sub_stops = stops | {join} if join is not None else stops
                fr.active[bb] = prog_now
                fr.nest[bb] = fr.nest.get(bb, 0) + 1
                base_assume = st.assume
                try:
                    outs = []
                    conds = []
                    for x, tb in arms:
                        c = T.eq(v, T.const(x, v.w))
                        conds.append(c)
                        if c is T.FALSE:
                            continue
                        s2 = st.fork()
                        add_assume(s2, c)
                        if myloop is not None:
                            self.specialise(s2, fr, c)
                        for o in self.run(s2, fr, tb, sub_stops, pred=bb):
                            outs.append(Out(T.and1([c, o.cond]), o.st, o.how, o.at))
                    cother = T.and1([T.bnot(c) for c in conds])
                    if cother is not T.FALSE and not self._is_unreachable_block(blocks, other):
                        s2 = st.fork()
                        add_assume(s2, cother)
                        if myloop is not None:
                            self.specialise(s2, fr, cother)
                        for o in self.run(s2, fr, other, sub_stops, pred=bb):
                            outs.append(Out(T.and1([cother, o.cond]), o.st, o.how, o.at))
                finally:
                    fr.nest[bb] -= 1
                    if prev is None:
                        fr.active.pop(bb, None)
                    else:
                        fr.active[bb] = prev
                joined = [o for o in outs if o.how == "stop" and o.at == join and join is not None and join not in stops]
                for o in outs:
                    if o in joined:
                        continue
                    pending.append(Out(T.and1([cur, o.cond]), o.st, o.how, o.at))
                if not joined:
                    return self.group_outs(pending, entry_assume)
                st = self.merge_outs(joined, base_assume)
                st.assume = base_assume
                jc = T.or1([o.cond for o in joined])
                cur = T.and1([cur, jc])
                bb = join
            else:
                raise Unsupported("terminator %s in %s" % (k, body["key"]))

    def specialise(self, st, fr, c):
        """inside a loop, on the arm of a symbolic branch taken under condition c: frame locals of the form ite(c, a, b) (such as
        the position of an iterator whose `next` returned a symbolic Some/None) become the arm's value, so that the next test
        of the same loop can be decided by constants"""
        if not isinstance(c, T.T) or c.op == "const":
            return
        nc = T.bnot(c)

        def cof(v, depth=0):
            if isinstance(v, T.T):
                if v.op == "ite":
                    if v.args[0] is c:
                        return v.args[1]
                    if v.args[0] is nc:
                        return v.args[2]
                elif v.op == "aff":
                    for a in v.args:
                        if a is c:
                            return T.subst(v, {c: T.TRUE})
                        if a is nc:
                            return T.subst(v, {nc: T.FALSE})
                        if a.op == "ite" and (a.args[0] is c or a.args[0] is nc):
                            return T.subst(v, {a: a.args[1] if a.args[0] is c else a.args[2]})
                return v
            if isinstance(v, Struct) and depth < 3 and len(v.fields) <= 8:
                fs = [cof(f, depth + 1) for f in v.fields]
                if any(a is not b for a, b in zip(fs, v.fields)):
                    return Struct(fs)
            return v
        for l in fr.locs:
            v = st.objs.get(l)
            if v is None:
                continue
            nv = cof(v)
            if nv is not v:
                st.objs[l] = nv

    # --------------------------------------------------------------- loops
    def innermost_loop(self, fr, bb):
        best = None
        for h, blks in fr.cfg.loops.items():
            if bb in blks and (best is None or len(blks) < len(fr.cfg.loops[best])):
                best = h
        return best

    def enter_loop(self, st, fr, H, stops):
        """first arrival at loop header H: try to follow the loop concretely; if its exit is not decided by
        constants (SymbolicLoop from this loop), summarise it from the state at first arrival"""
        snap = st.fork()
        snap_progress = fr.progress
        was_in = H in fr.inloop
        saved_iters = fr.iters.get(H, 0)
        fr.inloop.add(H)
        fr.iters[H] = 0
        from . import loops as LP
        mark = LP.log_mark(self)
        saved_active = dict(fr.active)
        try:
            try:
                return self.run(st, fr, H, stops, skip_header=H)
            except SymbolicLoop as e:
                if e.fr is not fr or self.innermost_loop_of_exc(fr, e, H) != H:
                    raise
            LP.log_reset(self, mark)
            fr.progress = snap_progress
            fr.active = saved_active
            return self.summarise_loop(snap, fr, H, stops)
        finally:
            if not was_in:
                fr.inloop.discard(H)
            fr.iters[H] = saved_iters

    def innermost_loop_of_exc(self, fr, e, H):
        if e.bb in fr.cfg.loops and e.why == "unroll limit":
            return e.bb
        return self.innermost_loop(fr, e.bb)

    def summarise_loop(self, st0, fr, H, stops):
        from . import loops as L
        return L.summarise(self, st0, fr, H, stops)

    def implied(self, st, c):
        """TRUE/FALSE if the 1-bit term c is decided by the assumptions, else None"""
        if c.op == "const":
            return c
        if c in st.assume:
            return T.TRUE
        n = T.bnot(c)
        if n in st.assume:
            return T.FALSE
        if c.op == "and1":
            vals = [self.implied(st, x) for x in c.args]
            if any(v is T.FALSE for v in vals):
                return T.FALSE
            if all(v is T.TRUE for v in vals):
                return T.TRUE
        if n.op == "and1":
            vals = [self.implied(st, x) for x in n.args]
            if any(v is T.FALSE for v in vals):
                return T.TRUE
            if all(v is T.TRUE for v in vals):
                return T.FALSE
        if c.op in ("ult", "slt") or n.op in ("ult", "slt"):
            ok, how = self.P.discharge(self, st, c, T.TRUE)
            if ok:
                return T.TRUE
            ok, how = self.P.discharge(self, st, c, T.FALSE)
            if ok:
                return T.FALSE
        return None

    def decide_switch(self, st, v, arms, other):
        if not st.assume:
            return None
        for x, tb in arms:
            r = self.implied(st, T.eq(v, T.const(x, v.w)))
            if r is T.TRUE:
                return tb
            if r is None:
                return None
        return other

    def _is_unreachable_block(self, blocks, bb):
        b = blocks[bb]
        return not b["s"] and b["t"][0] == "unreachable"

    def statement(self, st, fr, s):
        k = s[0]
        if k == "a":
            place, rv = s[1], s[2]
            dest_ty = None
            if rv[0] == "discr":
                dest_ty = self.place_ty(fr, place)
            try:
                v = self.rvalue(st, fr, rv, dest_ty)
            except Unsupported as e:
                raise Unsupported("%s [at %s in %s]" % (e, s[3][0], fr.body["key"]))
            self.write_place(st, fr, place, v)
        elif k == "setdiscr":
            v = self.read_place(st, fr, s[1])
            if isinstance(v, EnumV):
                self.write_place(st, fr, s[1], EnumV(s[2], v.payloads))
            else:
                self.write_place(st, fr, s[1], EnumV(s[2], {s[2]: ()}))
        elif k == "assume":
            pass
        else:
            raise Unsupported("statement %s" % k)

    # ------------------------------------------------------------ asserts
    def record_assert(self, st, fr, bb, t, cond, exp):
        ok = cond is exp
        how = "const"
        if not ok and cond.op != "const":
            ok, how = self.P.discharge(self, st, cond, exp)
        ops = []
        for o in t[6]:
            try:
                ops.append(self.operand(st, fr, o))
            except Exception:
                ops.append(None)
        self.asserts.append(AssertRec(body=fr.body["key"], bb=bb, kind=t[3], span=t[5], cond=cond,
                                      expected=t[2], ops=ops, chain=tuple(self.chain), discharged=ok, how=how))

    # -------------------------------------------------------------- calls
    def do_call(self, st, fr, bb, t):
        callee, argops, dest, target, span = t[1], t[2], t[3], t[4], t[5]
        args = [self.operand(st, fr, o) for o in argops]
        argtys = [self.operand_ty(fr, o) for o in argops]
        if "indirect" in callee:
            fv = self.operand(st, fr, callee["indirect"])
            if isinstance(fv, FnV):
                callee = fv.callee
            else:
                raise Unsupported("indirect call through %r" % (fv,))
        ctx = CallCtx(callee, args, argtys, self.place_ty(fr, dest), span, fr)
        try:
            rv = self.invoke(st, ctx)
        except Unsupported as e:
            if "[call at" in str(e):
                raise
            raise Unsupported("%s [call at %s in %s]" % (e, span[0], fr.body["key"]))
        except Diverged:
            # every path of the callee ends in a panic (each recorded with its path condition): this path of the caller ends here
            rv = NORETURN
        if rv is NORETURN or target is None:
            return None
        self.write_place(st, fr, dest, rv)
        return target

    def invoke(self, st, ctx):
        callee = ctx.callee
        names = [callee.get("res"), callee.get("rdef"), callee.get("def")]
        for n in names:
            if n and n in self.overrides:
                return self.overrides[n](self, st, ctx)
        ct = callee.get("ctor")
        if ct is not None:
            if ct["enum"]:
                return EnumV(ct["variant"], {ct["variant"]: tuple(ctx.args)})
            return ctx.args[0] if len(ctx.args) == 1 else Struct(ctx.args)
        h = self.P.lookup(self.prims, callee)
        rc = callee.get("res_core")
        if h is not None:
            if not (rc and rc in self.bodies):
                return h(self, st, ctx)
            # the primitive unrolls; when it cannot (an iterator whose length is not a constant, a receiver it does not model) the
            # library's own MIR is evaluated instead, its loop going through the loop summariser like any other
            snap = st.fork()
            ncalls, nasserts = len(self.calls), len(self.asserts)
            try:
                return h(self, st, ctx)
            except Unsupported as e:
                st.objs, st.world, st.assume = snap.objs, snap.world, snap.assume
                del self.calls[ncalls:]
                del self.asserts[nasserts:]
                depth = ctx.fr.depth + 1 if ctx.fr is not None else 0
                return self.call_body(st, rc, ctx.args, depth)
        if rc and rc in self.bodies:
            depth = ctx.fr.depth + 1 if ctx.fr is not None else 0
            return self.call_body(st, rc, ctx.args, depth)
        res = callee.get("res")
        if res and res in self.bodies and not (res in self.no_inline or callee.get("rdef") in self.no_inline or callee.get("def") in self.no_inline):
            if self.chain.count(res) >= 2:
                return self.P.opaque_call(self, st, ctx, "recursion")
            depth = ctx.fr.depth + 1 if ctx.fr is not None else 0
            if ctx.args and all(isinstance(a, T.T) for a in ctx.args):
                return self.call_pure(st, res, ctx.args, depth)
            return self.call_body(st, res, ctx.args, depth)
        return self.P.opaque_call(self, st, ctx, callee.get("why", "no-inline"))

    # -------------------------------------------------------------- merge
    def merge_states(self, c, a, b):
        out = a.fork()
        for oid, va in a.objs.items():
            if oid in b.objs:
                vb = b.objs[oid]
                if va is vb:
                    continue
                out.objs[oid] = self.merge_values(c, va, vb)
        for oid, vb in b.objs.items():
            if oid not in a.objs:
                out.objs[oid] = vb
        out.world = T.ite(c, a.world, b.world)
        return out

    def merge_values(self, c, a, b):
        if a is b:
            return a
        if c.op == "aff" and c.w == 1 and (c.aux[0] & 1):
            return self.merge_values(T.bnot(c), b, a)  # canonical polarity
        if a is None:
            return b
        if b is None:
            return a
        if isinstance(a, Lazy):
            a = self.symbolic(a.ty, a.name)
        if isinstance(b, Lazy):
            b = self.symbolic(b.ty, b.name)
        if isinstance(a, T.T) and isinstance(b, T.T):
            if a.w != b.w:
                raise Unsupported("merge of different widths")
            return T.ite(c, a, b)
        if isinstance(a, Struct) and isinstance(b, Struct) and len(a.fields) == len(b.fields):
            return Struct([self.merge_values(c, x, y) for x, y in zip(a.fields, b.fields)])
        if isinstance(a, ArrV) and isinstance(b, ArrV) and a.n == b.n:
            if a.n <= 64:
                return ArrV(a.n, a.w, None, None, {i: self.merge_values(c, a.get(i), b.get(i)) for i in range(a.n)})
            if a.base is b.base and (a.fill is b.fill or (a.fill is None) == (b.fill is None) and a.base is not None):
                e = {}
                for i in set(a.elems) | set(b.elems):
                    e[i] = self.merge_values(c, a.get(i), b.get(i))
                return ArrV(a.n, a.w, a.fill, a.base, e)
            if a.base is None and b.base is None and a.n <= 4096:
                e = {i: self.merge_values(c, a.get(i), b.get(i)) for i in range(a.n)}
                return ArrV(a.n, a.w, None, None, e) if not (a.fill is b.fill and a.fill is not None) else ArrV(a.n, a.w, a.fill, None, {i: v for i, v in e.items() if v is not a.fill})
            ta, tb = a.to_term(), b.to_term()
            return ArrV(a.n, a.w, None, T.atom("ite_arr", a.w, (c, ta, tb)), {})
        if isinstance(a, Ref) and isinstance(b, Ref):
            if a.same(b):
                return a
            return PrimV("phi_ref", (c, a, b))
        if isinstance(a, EnumV) and isinstance(b, EnumV):
            da = a.discr if isinstance(a.discr, T.T) else T.const(a.discr, 64)
            db = b.discr if isinstance(b.discr, T.T) else T.const(b.discr, 64)
            d = T.ite(c, da, db)
            p = {}
            for v in set(a.payloads) | set(b.payloads):
                if v in a.payloads and v in b.payloads:
                    p[v] = tuple(self.merge_values(c, x, y) for x, y in zip(a.payloads[v], b.payloads[v]))
                else:
                    p[v] = a.payloads.get(v, b.payloads.get(v))
            return EnumV(d.aux if d.op == "const" else d, p)
        if isinstance(a, ClosureV) and isinstance(b, ClosureV) and a.defpath == b.defpath:
            return ClosureV(a.defpath, [self.merge_values(c, x, y) for x, y in zip(a.upvars, b.upvars)], a.key)
        if isinstance(a, PrimV) and isinstance(b, PrimV) and a.kind == b.kind:
            if a.data == b.data:
                return a
            return self.P.merge_prim(self, c, a, b)
        if isinstance(a, OpaqueV) and isinstance(b, OpaqueV) and a.token == b.token:
            return a
        if isinstance(a, FnV) and isinstance(b, FnV):
            return a
        return PrimV("phi", (c, a, b))


NORETURN = object()


class CallCtx(object):
    __slots__ = ("callee", "args", "argtys", "dest_ty", "span", "fr")

    def __init__(self, callee, args, argtys, dest_ty, span, fr):
        self.callee = callee
        self.args = args
        self.argtys = argtys
        self.dest_ty = dest_ty
        self.span = span
        self.fr = fr

