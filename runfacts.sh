#!/bin/sh
# usage: runfacts.sh OUTDIR [cargo args...]
OUT=$1; shift
TD=$(mktemp -d)
cd /repo && env LD_LIBRARY_PATH=$(rustc +nightly --print sysroot)/lib RUSTFLAGS="-Zmir-opt-level=0 -Zalways-encode-mir -Awarnings -C overflow-checks=on -C debug-assertions=on" RUSTC_WORKSPACE_WRAPPER=/verif/driver/target/release/mirfacts MIRFACTS_OUT=$OUT CARGO_TARGET_DIR=$TD cargo +nightly check --offline "$@" 2>&1 | tail -3
rm -rf $TD
