// mirfacts: a rustc_private driver that dumps, for one crate, the facts the
// static checkers in /verif/vf work on: item tables (ADTs, impls, statics,
// consts, unsafe sites) and the MIR of every local body plus every rand_core /
// workspace instance reachable from one, with every call resolved.
//
// Used as RUSTC_WORKSPACE_WRAPPER (argv[1] is the real rustc and is dropped).
// Output: $MIRFACTS_OUT/<crate>.json, written once per process.
#![feature(rustc_private)]
#![allow(rustc::internal)]

extern crate rustc_abi;
extern crate rustc_driver;
extern crate rustc_hir;
extern crate rustc_interface;
extern crate rustc_middle;
extern crate rustc_span;

use rustc_hir::def::DefKind;
use rustc_hir::def_id::{DefId, LOCAL_CRATE};
use rustc_middle::mir::{self, interpret::GlobalAlloc};
use rustc_middle::ty::print::{with_resolve_crate_name, with_no_trimmed_paths};
use rustc_middle::ty::{self, GenericArgsRef, Instance, InstanceKind, Ty, TyCtxt, TypingEnv};
use rustc_middle::ty::TypeVisitableExt;
use rustc_span::Span;
use std::collections::{BTreeMap, HashMap, HashSet, VecDeque};
use std::fmt::Write as _;

mod json;
use json::J;

const FOLLOW_CRATES: &[&str] = &[
    "rand_core",
    "rand_xoshiro",
    "rand_xorshift",
    "rand_hc",
    "rand_isaac",
    "rand_jitter",
];

struct Cb;

impl rustc_driver::Callbacks for Cb {
    fn after_analysis<'tcx>(
        &mut self,
        _compiler: &rustc_interface::interface::Compiler,
        tcx: TyCtxt<'tcx>,
    ) -> rustc_driver::Compilation {
        if let Ok(out) = std::env::var("MIRFACTS_OUT") {
            let krate = tcx.crate_name(LOCAL_CRATE).to_string();
            // Only library targets of the followed crates; build scripts and
            // other things are skipped.
            if FOLLOW_CRATES.contains(&krate.as_str()) || std::env::var("MIRFACTS_ALL").is_ok() {
                let mut d = Dumper::new(tcx);
                let j = with_resolve_crate_name!(with_no_trimmed_paths!(d.dump_crate()));
                let mut s = String::new();
                j.write(&mut s);
                let is_test = tcx.sess.opts.test;
                let name = if is_test { format!("{krate}.test.json") } else { format!("{krate}.json") };
                let path = std::path::Path::new(&out).join(name);
                std::fs::write(&path, s).expect("write facts");
            }
        }
        rustc_driver::Compilation::Continue
    }
}

fn main() -> std::process::ExitCode {
    let mut args: Vec<String> = std::env::args().collect();
    // wrapper mode: argv[1] is the path of the real rustc
    if args.len() > 1 && (args[1].ends_with("rustc") || args[1].contains("/rustc")) {
        args.remove(1);
    }
    rustc_driver::catch_with_exit_code(|| {
        rustc_driver::run_compiler(&args, &mut Cb);
    })
}

struct Dumper<'tcx> {
    tcx: TyCtxt<'tcx>,
    tys: Vec<J>,
    ty_ids: HashMap<Ty<'tcx>, usize>,
    bodies: BTreeMap<String, J>,
    queue: VecDeque<(Instance<'tcx>, TypingEnv<'tcx>)>,
    seen: HashSet<String>,
    /// printed path -> the distinct items that print alike (items of separate anonymous blocks, e.g. the wrappers serde_derive emits)
    alike: std::cell::RefCell<HashMap<String, Vec<DefId>>>,
    /// typing environment of the body being dumped (closure types met there are instantiated in it)
    cur_env: Option<TypingEnv<'tcx>>,
}

fn jstr(s: impl Into<String>) -> J {
    J::Str(s.into())
}
fn jint(i: i128) -> J {
    J::Int(i)
}
fn jarr(v: Vec<J>) -> J {
    J::Arr(v)
}
fn jobj(v: Vec<(&str, J)>) -> J {
    J::Obj(v.into_iter().map(|(k, v)| (k.to_string(), v)).collect())
}

impl<'tcx> Dumper<'tcx> {
    fn new(tcx: TyCtxt<'tcx>) -> Self {
        Dumper {
            tcx,
            tys: Vec::new(),
            ty_ids: HashMap::new(),
            bodies: BTreeMap::new(),
            queue: VecDeque::new(),
            seen: HashSet::new(),
            alike: std::cell::RefCell::new(HashMap::new()),
            cur_env: None,
        }
    }

    fn span_str(&self, sp: Span) -> String {
        if sp.is_dummy() {
            return "?".into();
        }
        let sm = self.tcx.sess.source_map();
        let lo = sm.lookup_char_pos(sp.lo());
        let name = format!("{}", lo.file.name.prefer_local_unconditionally());
        format!("{}:{}", name, lo.line)
    }

    fn span_pair(&self, sp: Span) -> J {
        // [definition-site (where the tokens are), outermost call site, from_expansion]
        let cs = sp.source_callsite();
        jarr(vec![
            jstr(self.span_str(sp)),
            jstr(self.span_str(cs)),
            J::Bool(sp.from_expansion()),
        ])
    }

    fn krate_of(&self, def_id: DefId) -> String {
        self.tcx.crate_name(def_id.krate).to_string()
    }

    fn path(&self, def_id: DefId) -> String {
        self.tcx.def_path_str(def_id)
    }

    fn path_args(&self, def_id: DefId, args: GenericArgsRef<'tcx>) -> String {
        self.tcx.def_path_str_with_args(def_id, args)
    }

    /// byte offsets of the fields of a monomorphic tuple / struct in memory (for decoding constants), and its size
    fn field_offsets(&self, t: Ty<'tcx>, n: usize) -> (J, J) {
        if t.has_non_region_param() || t.has_aliases() {
            return (J::Null, J::Null);
        }
        match self.tcx.layout_of(TypingEnv::fully_monomorphized().as_query_input(t)) {
            Ok(l) => {
                let mut v = Vec::new();
                if l.fields.count() != n {
                    return (J::Null, J::Null);
                }
                for i in 0..n {
                    v.push(jint(l.fields.offset(i).bytes() as i128));
                }
                (jarr(v), jint(l.size.bytes() as i128))
            }
            Err(_) => (J::Null, J::Null),
        }
    }

    fn core_fallback(&self, d: DefId) -> bool {
        let p = self.path(d);
        // modules of core whose functions are plain safe code over their arguments (adaptors, combinators): their own MIR can
        // stand in where the primitive table has no entry
        const MODS: &[&str] = &[
            "core::iter::", "<core::iter::", "core::slice::iter::", "<core::slice::", "<core::ops::Range", "core::ops::range::",
            "<core::ops::range::", "core::array::", "<core::array::", "core::option::", "<core::option::", "core::result::",
            "<core::result::", "core::bool::", "core::cmp::", "<core::cmp::", "core::ops::function::", "core::ops::try_trait::",
            "<core::ops::control_flow::", "core::ops::control_flow::", "core::convert::", "<core::convert::",
            "core::tuple::", "<core::num::", "core::num::", "core::ops::", "<core::ops::",
        ];
        MODS.iter().any(|m| p.starts_with(m))
    }

    /// how a constant of a monomorphic enum type is laid out: where the directly encoded tag is and which tag value each
    /// variant has (niche-encoded enums are not described)
    fn enum_layout(&self, t: Ty<'tcx>, adt: ty::AdtDef<'tcx>) -> J {
        if t.has_non_region_param() || t.has_aliases() {
            return J::Null;
        }
        let l = match self.tcx.layout_of(TypingEnv::fully_monomorphized().as_query_input(t)) {
            Ok(l) => l,
            Err(_) => return J::Null,
        };
        match &l.variants {
            rustc_abi::Variants::Multiple { tag, tag_encoding: rustc_abi::TagEncoding::Direct, tag_field, .. } => {
                let off = l.fields.offset(tag_field.as_usize()).bytes();
                let tsize = tag.size(&self.tcx).bytes();
                let discrs: Vec<J> = adt.discriminants(self.tcx).map(|(_, d)| jstr(format!("{}", d.val))).collect();
                jobj(vec![
                    ("tag_offset", jint(off as i128)),
                    ("tag_size", jint(tsize as i128)),
                    ("size", jint(l.size.bytes() as i128)),
                    ("discrs", jarr(discrs)),
                ])
            }
            _ => J::Null,
        }
    }

    // ---------------------------------------------------------------- types
    fn ty(&mut self, t: Ty<'tcx>) -> usize {
        if let Some(&i) = self.ty_ids.get(&t) {
            return i;
        }
        let id = self.tys.len();
        self.ty_ids.insert(t, id);
        self.tys.push(J::Null);
        let s = format!("{}", t);
        let tcx = self.tcx;
        let j = match t.kind() {
            ty::Bool => jobj(vec![("k", jstr("bool")), ("s", jstr(s))]),
            ty::Char => jobj(vec![("k", jstr("char")), ("s", jstr(s))]),
            ty::Int(it) => {
                let bits = it.bit_width().unwrap_or(tcx.data_layout.pointer_size().bits()) as i128;
                jobj(vec![
                    ("k", jstr("int")),
                    ("bits", jint(bits)),
                    ("signed", J::Bool(true)),
                    ("s", jstr(s)),
                ])
            }
            ty::Uint(it) => {
                let bits = it.bit_width().unwrap_or(tcx.data_layout.pointer_size().bits()) as i128;
                jobj(vec![
                    ("k", jstr("int")),
                    ("bits", jint(bits)),
                    ("signed", J::Bool(false)),
                    ("s", jstr(s)),
                ])
            }
            ty::Float(_) => jobj(vec![("k", jstr("float")), ("s", jstr(s))]),
            ty::Never => jobj(vec![("k", jstr("never")), ("s", jstr(s))]),
            ty::Str => jobj(vec![("k", jstr("str")), ("s", jstr(s))]),
            ty::Array(e, n) => {
                let e = self.ty(*e);
                let len = n.try_to_target_usize(tcx).map(|x| jint(x as i128)).unwrap_or(J::Null);
                jobj(vec![("k", jstr("array")), ("elem", jint(e as i128)), ("len", len), ("s", jstr(s))])
            }
            ty::Slice(e) => {
                let e = self.ty(*e);
                jobj(vec![("k", jstr("slice")), ("elem", jint(e as i128)), ("s", jstr(s))])
            }
            ty::Ref(_, inner, m) => {
                let e = self.ty(*inner);
                jobj(vec![
                    ("k", jstr("ref")),
                    ("mut", J::Bool(m.is_mut())),
                    ("to", jint(e as i128)),
                    ("s", jstr(s)),
                ])
            }
            ty::RawPtr(inner, m) => {
                let e = self.ty(*inner);
                jobj(vec![
                    ("k", jstr("ptr")),
                    ("mut", J::Bool(m.is_mut())),
                    ("to", jint(e as i128)),
                    ("s", jstr(s)),
                ])
            }
            ty::Tuple(elems) => {
                let v: Vec<J> = elems.iter().map(|e| jint(self.ty(e) as i128)).collect();
                let (offs, size) = self.field_offsets(t, elems.len());
                jobj(vec![("k", jstr("tuple")), ("elems", jarr(v)), ("offsets", offs), ("size", size), ("s", jstr(s))])
            }
            ty::Adt(adt, args) => {
                let mut variants = Vec::new();
                for v in adt.variants().iter() {
                    let mut fields = Vec::new();
                    for f in v.fields.iter() {
                        let fty = f.ty(tcx, args);
                        let fty = tcx
                            .try_normalize_erasing_regions(TypingEnv::fully_monomorphized(), ty::Unnormalized::new_wip(fty))
                            .unwrap_or(fty);
                        let fid = self.ty(fty);
                        fields.push(jobj(vec![
                            ("name", jstr(f.name.to_string())),
                            ("ty", jint(fid as i128)),
                            ("pub", J::Bool(f.vis.is_public())),
                        ]));
                    }
                    variants.push(jobj(vec![
                        ("name", jstr(v.name.to_string())),
                        ("fields", jarr(fields)),
                    ]));
                }
                let gargs: Vec<J> = args.iter().map(|a| jstr(format!("{}", a))).collect();
                let targs: Vec<J> = args
                    .iter()
                    .filter_map(|a| a.as_type())
                    .map(|t| jint(self.ty(t) as i128))
                    .collect();
                let kind = if adt.is_struct() {
                    "struct"
                } else if adt.is_enum() {
                    "enum"
                } else {
                    "union"
                };
                let (offs, size) = if adt.is_struct() {
                    self.field_offsets(t, adt.non_enum_variant().fields.len())
                } else {
                    (J::Null, J::Null)
                };
                let enum_layout = if adt.is_enum() { self.enum_layout(t, *adt) } else { J::Null };
                jobj(vec![
                    ("k", jstr("adt")),
                    ("offsets", offs),
                    ("size", size),
                    ("enum_layout", enum_layout),
                    ("def", jstr(self.path(adt.did()))),
                    ("krate", jstr(self.krate_of(adt.did()))),
                    ("adt_kind", jstr(kind)),
                    ("gargs", jarr(gargs)),
                    ("targs", jarr(targs)),
                    ("variants", jarr(variants)),
                    ("s", jstr(s)),
                ])
            }
            ty::Closure(def, args) => {
                let ups: Vec<J> = args
                    .as_closure()
                    .upvar_tys()
                    .iter()
                    .map(|t| jint(self.ty(t) as i128))
                    .collect();
                // the body of this instantiation of the closure (the parent's generic arguments are part of `args`)
                let body = if self.tcx.is_mir_available(*def) {
                    let inst = Instance::new_raw(*def, args);
                    let env = self.cur_env.unwrap_or_else(|| TypingEnv::post_analysis(self.tcx, *def));
                    jstr(self.enqueue(inst, env))
                } else {
                    J::Null
                };
                jobj(vec![
                    ("k", jstr("closure")),
                    ("def", jstr(self.path(*def))),
                    ("upvars", jarr(ups)),
                    ("body", body),
                    ("s", jstr(s)),
                ])
            }
            ty::FnDef(def, args) => jobj(vec![
                ("k", jstr("fndef")),
                ("def", jstr(self.path(*def))),
                ("path", jstr(self.path_args(*def, args))),
                ("s", jstr(s)),
            ]),
            ty::FnPtr(..) => jobj(vec![("k", jstr("fnptr")), ("s", jstr(s))]),
            ty::Param(p) => jobj(vec![("k", jstr("param")), ("name", jstr(p.name.to_string())), ("s", jstr(s))]),
            ty::Dynamic(..) => jobj(vec![("k", jstr("dyn")), ("s", jstr(s))]),
            ty::Alias(..) => jobj(vec![("k", jstr("alias")), ("s", jstr(s))]),
            _ => jobj(vec![("k", jstr("other")), ("s", jstr(s))]),
        };
        self.tys[id] = j;
        id
    }

    // ------------------------------------------------------------- constants
    fn alloc_bytes(&self, alloc_id: mir::interpret::AllocId, offset: u64, len: Option<u64>) -> J {
        self.alloc_bytes_d(alloc_id, offset, len, 0)
    }

    fn alloc_bytes_d(&self, alloc_id: mir::interpret::AllocId, offset: u64, len: Option<u64>, depth: u32) -> J {
        match self.tcx.try_get_global_alloc(alloc_id) {
            Some(GlobalAlloc::Memory(a)) => {
                let a = a.inner();
                let total = a.len() as u64;
                let end = match len {
                    Some(l) => (offset + l).min(total),
                    None => total,
                };
                let bytes = a.inspect_with_uninit_and_ptr_outside_interpreter(offset as usize..end as usize);
                let mut hex = String::with_capacity(bytes.len() * 2);
                for b in bytes {
                    let _ = write!(hex, "{:02x}", b);
                }
                // pointers stored in this allocation: where, into which allocation (emitted recursively), at which offset
                let mut ptrs = Vec::new();
                if depth < 3 {
                    for (off, prov) in a.provenance().ptrs().iter() {
                        let o = off.bytes();
                        if o < offset || o + 8 > end {
                            continue;
                        }
                        let raw = a.inspect_with_uninit_and_ptr_outside_interpreter(o as usize..(o + 8) as usize);
                        let mut addend: u64 = 0;
                        for (i, b) in raw.iter().enumerate() {
                            addend |= (*b as u64) << (8 * i);
                        }
                        let tgt = self.alloc_bytes_d(prov.alloc_id(), 0, None, depth + 1);
                        ptrs.push(jobj(vec![
                            ("at", jint((o - offset) as i128)),
                            ("addend", jint(addend as i128)),
                            ("to", tgt),
                        ]));
                    }
                }
                jobj(vec![
                    ("bytes", jstr(hex)),
                    ("has_ptrs", J::Bool(!a.provenance().ptrs().is_empty())),
                    ("ptrs", jarr(ptrs)),
                ])
            }
            Some(GlobalAlloc::Static(def)) => {
                // an immutable static without interior mutability is a named constant: its initial value is recorded
                let mut f: Vec<(&str, J)> = vec![("static", jstr(self.path(def)))];
                let sty = self.tcx.type_of(def).instantiate_identity().skip_norm_wip();
                let plain = !self.tcx.is_mutable_static(def)
                    && !self.tcx.is_thread_local_static(def)
                    && sty.is_freeze(self.tcx, TypingEnv::fully_monomorphized());
                if plain && depth < 3 {
                    if let Ok(a) = self.tcx.eval_static_initializer(def) {
                        let a = a.inner();
                        let bytes = a.inspect_with_uninit_and_ptr_outside_interpreter(0..a.len());
                        let mut hex = String::with_capacity(bytes.len() * 2);
                        for b in bytes {
                            let _ = write!(hex, "{:02x}", b);
                        }
                        if a.provenance().ptrs().is_empty() {
                            f.push(("bytes", jstr(hex)));
                            f.push(("immutable", J::Bool(true)));
                        }
                    }
                }
                jobj(f)
            }
            Some(GlobalAlloc::Function { instance }) => jobj(vec![(
                "fnptr",
                jstr(self.path_args(instance.def_id(), instance.args)),
            )]),
            _ => jobj(vec![("unknown_alloc", J::Bool(true))]),
        }
    }

    fn const_value(&mut self, c: &mir::Const<'tcx>, env: TypingEnv<'tcx>, span: Span) -> J {
        let tcx = self.tcx;
        let cty = c.ty();
        let tyid = self.ty(cty);
        let mut fields: Vec<(&str, J)> = vec![("ty", jint(tyid as i128))];
        if let ty::FnDef(def, args) = cty.kind() {
            let callee = self.callee(*def, args, env);
            fields.push(("fn", callee));
            return jobj(fields);
        }
        // which item does an unevaluated const name?
        if let mir::Const::Unevaluated(u, _) = c {
            fields.push(("item", jstr(self.path(u.def))));
            if let Some(p) = u.promoted {
                fields.push(("promoted", jint(p.as_u32() as i128)));
            }
        }
        match c.eval(tcx, env, span) {
            Ok(v) => match v {
                mir::ConstValue::Scalar(mir::interpret::Scalar::Int(i)) => {
                    let size = i.size();
                    let bits = i.to_bits(size);
                    fields.push(("int", jstr(format!("{}", bits))));
                    fields.push(("size", jint(size.bytes() as i128)));
                }
                mir::ConstValue::Scalar(mir::interpret::Scalar::Ptr(p, _)) => {
                    let (prov, off) = p.into_raw_parts();
                    let a = self.alloc_bytes(prov.alloc_id(), off.bytes(), None);
                    fields.push(("ptr", a));
                }
                mir::ConstValue::ZeroSized => fields.push(("zst", J::Bool(true))),
                mir::ConstValue::Slice { alloc_id, meta } => {
                    let a = self.alloc_bytes(alloc_id, 0, None);
                    fields.push(("slice", a));
                    fields.push(("meta", jint(meta as i128)));
                }
                mir::ConstValue::Indirect { alloc_id, offset } => {
                    let a = self.alloc_bytes(alloc_id, offset.bytes(), None);
                    fields.push(("mem", a));
                }
            },
            Err(_) => fields.push(("uneval", jstr(format!("{}", c)))),
        }
        jobj(fields)
    }

    // --------------------------------------------------------------- callees
    fn callee(&mut self, def: DefId, args: GenericArgsRef<'tcx>, env: TypingEnv<'tcx>) -> J {
        let tcx = self.tcx;
        let mut f: Vec<(&str, J)> = vec![
            ("def", jstr(self.path(def))),
            ("path", jstr(self.path_args(def, args))),
            ("krate", jstr(self.krate_of(def))),
            ("gargs", jarr(args.iter().map(|a| jstr(format!("{}", a))).collect())),
        ];
        let targs: Vec<J> =
            args.iter().filter_map(|a| a.as_type()).map(|t| jint(self.ty(t) as i128)).collect();
        f.push(("targs", jarr(targs)));
        if let Some(tr) = tcx.trait_of_assoc(def) {
            f.push(("trait", jstr(self.path(tr))));
        }
        if let DefKind::Ctor(of, _) = tcx.def_kind(def) {
            // tuple-struct / variant constructor used as a function
            let parent = tcx.parent(def);
            let (adt_did, variant) = match of {
                rustc_hir::def::CtorOf::Struct => (parent, 0u32),
                rustc_hir::def::CtorOf::Variant => {
                    let adt_did = tcx.parent(parent);
                    let adt = tcx.adt_def(adt_did);
                    (adt_did, adt.variant_index_with_id(parent).as_u32())
                }
            };
            let is_enum = tcx.adt_def(adt_did).is_enum();
            f.push(("ctor", jobj(vec![
                ("adt", jstr(self.path(adt_did))),
                ("variant", jint(variant as i128)),
                ("enum", J::Bool(is_enum)),
            ])));
        }
        if let Some(intr) = tcx.intrinsic(def) {
            f.push(("intrinsic", jstr(intr.name.to_string())));
        }
        let resolved = if matches!(tcx.def_kind(def), DefKind::Fn | DefKind::AssocFn) {
            Instance::try_resolve(tcx, env, def, args).ok().flatten()
        } else {
            None
        };
        match resolved {
            None => {
                f.push(("res", J::Null));
                f.push(("why", jstr("unresolved")));
            }
            Some(inst) => {
                let rdef = inst.def_id();
                f.push(("rdef", jstr(self.path(rdef))));
                f.push(("rpath", jstr(self.path_args(rdef, inst.args))));
                f.push(("rkrate", jstr(self.krate_of(rdef))));
                let rtargs: Vec<J> = inst
                    .args
                    .iter()
                    .filter_map(|a| a.as_type())
                    .map(|t| jint(self.ty(t) as i128))
                    .collect();
                f.push(("rtargs", jarr(rtargs)));
                if tcx.is_automatically_derived(tcx.parent(rdef)) && tcx.def_kind(tcx.parent(rdef)) == (DefKind::Impl { of_trait: true }) {
                    f.push(("rderived", J::Bool(true)));
                }
                match inst.def {
                    InstanceKind::Item(d) => {
                        let kr = self.krate_of(d);
                        if FOLLOW_CRATES.contains(&kr.as_str()) && tcx.is_mir_available(d) {
                            let key = self.enqueue(inst, env);
                            f.push(("res", jstr(key)));
                        } else {
                            f.push(("res", J::Null));
                            f.push((
                                "why",
                                jstr(if tcx.is_mir_available(d) { "primitive" } else { "no-mir" }),
                            ));
                            // library combinators whose own MIR can stand in when the primitive table cannot unroll them
                            // (an iterator of unknown length): dumped as an alternative, never preferred
                            if kr == "core" && tcx.is_mir_available(d) && self.core_fallback(d) {
                                let key = self.enqueue(inst, env);
                                f.push(("res_core", jstr(key)));
                            }
                        }
                    }
                    InstanceKind::Intrinsic(_) => {
                        f.push(("res", J::Null));
                        f.push(("why", jstr("intrinsic")));
                    }
                    InstanceKind::Virtual(..) => {
                        f.push(("res", J::Null));
                        f.push(("why", jstr("virtual")));
                    }
                    ref other => {
                        f.push(("res", J::Null));
                        f.push(("why", jstr("shim")));
                        f.push(("shim", jstr(format!("{:?}", other))));
                    }
                }
            }
        }
        jobj(f)
    }

    fn instance_key(&self, inst: Instance<'tcx>) -> String {
        let base = self.path_args(inst.def_id(), inst.args);
        let mut alike = self.alike.borrow_mut();
        let v = alike.entry(base.clone()).or_default();
        let n = match v.iter().position(|d| *d == inst.def_id()) {
            Some(n) => n,
            None => {
                v.push(inst.def_id());
                v.len() - 1
            }
        };
        if n == 0 {
            base
        } else {
            format!("{}#{}", base, n + 1)
        }
    }

    fn enqueue(&mut self, inst: Instance<'tcx>, env: TypingEnv<'tcx>) -> String {
        let key = self.instance_key(inst);
        if self.seen.insert(key.clone()) {
            self.queue.push_back((inst, env));
        }
        key
    }

    // ------------------------------------------------------------------ MIR
    fn place(&mut self, p: &mir::Place<'tcx>) -> J {
        let mut proj = Vec::new();
        for e in p.projection.iter() {
            let j = match e {
                mir::ProjectionElem::Deref => jarr(vec![jstr("d")]),
                mir::ProjectionElem::Field(f, t) => {
                    let t = self.ty(t);
                    jarr(vec![jstr("f"), jint(f.as_u32() as i128), jint(t as i128)])
                }
                mir::ProjectionElem::Index(l) => jarr(vec![jstr("i"), jint(l.as_u32() as i128)]),
                mir::ProjectionElem::ConstantIndex { offset, min_length, from_end } => jarr(vec![
                    jstr("c"),
                    jint(offset as i128),
                    jint(min_length as i128),
                    J::Bool(from_end),
                ]),
                mir::ProjectionElem::Subslice { from, to, from_end } => {
                    jarr(vec![jstr("s"), jint(from as i128), jint(to as i128), J::Bool(from_end)])
                }
                mir::ProjectionElem::Downcast(name, v) => jarr(vec![
                    jstr("v"),
                    jint(v.as_u32() as i128),
                    jstr(name.map(|s| s.to_string()).unwrap_or_default()),
                ]),
                mir::ProjectionElem::OpaqueCast(_) => jarr(vec![jstr("o")]),
                mir::ProjectionElem::UnwrapUnsafeBinder(_) => jarr(vec![jstr("u")]),
            };
            proj.push(j);
        }
        jarr(vec![jint(p.local.as_u32() as i128), jarr(proj)])
    }

    fn operand(&mut self, o: &mir::Operand<'tcx>, env: TypingEnv<'tcx>) -> J {
        match o {
            mir::Operand::Copy(p) => jarr(vec![jstr("cp"), self.place(p)]),
            mir::Operand::Move(p) => jarr(vec![jstr("mv"), self.place(p)]),
            mir::Operand::Constant(c) => {
                let v = self.const_value(&c.const_, env, c.span);
                jarr(vec![jstr("k"), v])
            }
            mir::Operand::RuntimeChecks(rc) => jarr(vec![jstr("rtc"), jstr(format!("{:?}", rc))]),
        }
    }

    fn rvalue(&mut self, r: &mir::Rvalue<'tcx>, env: TypingEnv<'tcx>, body: &mir::Body<'tcx>) -> J {
        match r {
            mir::Rvalue::Use(o, _) => jarr(vec![jstr("use"), self.operand(o, env)]),
            mir::Rvalue::Repeat(o, n) => {
                let n = n.try_to_target_usize(self.tcx).map(|x| jint(x as i128)).unwrap_or(J::Null);
                jarr(vec![jstr("rep"), self.operand(o, env), n])
            }
            mir::Rvalue::Ref(_, bk, p) => {
                let m = matches!(bk, mir::BorrowKind::Mut { .. });
                jarr(vec![jstr("ref"), J::Bool(m), self.place(p)])
            }
            mir::Rvalue::ThreadLocalRef(d) => jarr(vec![jstr("tlref"), jstr(self.path(*d))]),
            mir::Rvalue::RawPtr(k, p) => {
                jarr(vec![jstr("raw"), jstr(format!("{:?}", k)), self.place(p)])
            }
            mir::Rvalue::Cast(k, o, t) => {
                let mut v = vec![jstr("cast"), jstr(format!("{:?}", k)), self.operand(o, env)];
                let tid = self.ty(*t);
                v.push(jint(tid as i128));
                // unsizing to a trait object: record the vtable methods of the concrete type
                if let mir::CastKind::PointerCoercion(..) = k {
                    let src = o.ty(&body.local_decls, self.tcx);
                    if let (Some(sp), Some(dp)) = (src.builtin_deref(true), t.builtin_deref(true)) {
                        if let ty::Dynamic(preds, _) = dp.kind() {
                            if let Some(principal) = preds.principal() {
                                let trait_def = principal.def_id();
                                let mut methods = Vec::new();
                                // peel references: <&T as Trait>::m forwards to <T as Trait>::m for the std traits we follow
                                let mut sp = sp;
                                let mut peeled = 0;
                                while let ty::Ref(_, inner, _) = sp.kind() {
                                    sp = *inner;
                                    peeled += 1;
                                }
                                if principal.skip_binder().args.is_empty() && !matches!(sp.kind(), ty::Dynamic(..)) {
                                    let items: Vec<_> = self.tcx.associated_items(trait_def).in_definition_order().filter(|i| i.is_fn()).map(|i| (i.name().to_string(), i.def_id)).collect();
                                    for (name, mdef) in items {
                                        if self.tcx.generics_of(mdef).own_params.iter().any(|p| !matches!(p.kind, ty::GenericParamDefKind::Lifetime)) {
                                            continue;
                                        }
                                        let args = self.tcx.mk_args(&[sp.into()]);
                                        let margs = ty::GenericArgs::for_item(self.tcx, mdef, |param, _| {
                                            if (param.index as usize) < args.len() { args[param.index as usize] } else { self.tcx.lifetimes.re_erased.into() }
                                        });
                                        let c = self.callee(mdef, margs, env);
                                        methods.push((name, c));
                                    }
                                }
                                v.push(jobj(vec![("dyn_trait", jstr(self.path(trait_def))), ("peeled", jint(peeled)), ("vtable", J::Obj(methods))]));
                            }
                        }
                    }
                }
                jarr(v)
            }
            mir::Rvalue::BinaryOp(op, ab) => {
                let (a, b) = &**ab;
                jarr(vec![
                    jstr("bin"),
                    jstr(format!("{:?}", op)),
                    self.operand(a, env),
                    self.operand(b, env),
                ])
            }
            mir::Rvalue::UnaryOp(op, a) => {
                jarr(vec![jstr("un"), jstr(format!("{:?}", op)), self.operand(a, env)])
            }
            mir::Rvalue::Discriminant(p) => jarr(vec![jstr("discr"), self.place(p)]),
            mir::Rvalue::Aggregate(k, ops) => {
                let ops: Vec<J> = ops.iter().map(|o| self.operand(o, env)).collect();
                let kind = match &**k {
                    mir::AggregateKind::Array(t) => {
                        let t = self.ty(*t);
                        jobj(vec![("k", jstr("array")), ("elem", jint(t as i128))])
                    }
                    mir::AggregateKind::Tuple => jobj(vec![("k", jstr("tuple"))]),
                    mir::AggregateKind::Adt(def, variant, args, _, active) => {
                        let adt_ty = Ty::new_adt(self.tcx, self.tcx.adt_def(*def), args);
                        let t = self.ty(adt_ty);
                        jobj(vec![
                            ("k", jstr("adt")),
                            ("def", jstr(self.path(*def))),
                            ("variant", jint(variant.as_u32() as i128)),
                            ("ty", jint(t as i128)),
                            ("union_field", active.map(|f| jint(f.as_u32() as i128)).unwrap_or(J::Null)),
                        ])
                    }
                    mir::AggregateKind::Closure(def, args) => {
                        let t = self.ty(Ty::new_closure(self.tcx, *def, args));
                        jobj(vec![("k", jstr("closure")), ("def", jstr(self.path(*def))), ("ty", jint(t as i128))])
                    }
                    mir::AggregateKind::RawPtr(t, m) => {
                        let t = self.ty(*t);
                        jobj(vec![("k", jstr("rawptr")), ("to", jint(t as i128)), ("mut", J::Bool(m.is_mut()))])
                    }
                    other => jobj(vec![("k", jstr("other")), ("s", jstr(format!("{:?}", other)))]),
                };
                jarr(vec![jstr("agg"), kind, jarr(ops)])
            }
            mir::Rvalue::CopyForDeref(p) => jarr(vec![jstr("use"), jarr(vec![jstr("cp"), self.place(p)])]),
            mir::Rvalue::WrapUnsafeBinder(o, _) => jarr(vec![jstr("use"), self.operand(o, env)]),
        }
    }

    fn dump_body(&mut self, inst: Instance<'tcx>, env: TypingEnv<'tcx>, key: &str) -> J {
        let tcx = self.tcx;
        self.cur_env = Some(env);
        let def = inst.def_id();
        let body0 = tcx.instance_mir(inst.def);
        let body: mir::Body<'tcx> = inst.instantiate_mir_and_normalize_erasing_regions(
            tcx,
            env,
            ty::EarlyBinder::bind(body0.clone()),
        );
        let locals: Vec<J> = body.local_decls.iter().map(|d| jint(self.ty(d.ty) as i128)).collect();
        let mut names = Vec::new();
        for vdi in body.var_debug_info.iter() {
            if let mir::VarDebugInfoContents::Place(p) = &vdi.value {
                if p.projection.is_empty() {
                    names.push((format!("{}", p.local.as_u32()), jstr(vdi.name.to_string())));
                } else {
                    // closure upvars etc.
                    let pj = self.place(p);
                    names.push((format!("p:{}", vdi.name), pj));
                }
            }
        }
        let mut blocks = Vec::new();
        for (_bb, data) in body.basic_blocks.iter_enumerated() {
            let mut stmts = Vec::new();
            for st in data.statements.iter() {
                let sp = self.span_pair(st.source_info.span);
                match &st.kind {
                    mir::StatementKind::Assign(b) => {
                        let (p, r) = &**b;
                        stmts.push(jarr(vec![jstr("a"), self.place(p), self.rvalue(r, env, &body), sp]));
                    }
                    mir::StatementKind::SetDiscriminant { place, variant_index } => {
                        stmts.push(jarr(vec![
                            jstr("setdiscr"),
                            self.place(place),
                            jint(variant_index.as_u32() as i128),
                            sp,
                        ]));
                    }
                    mir::StatementKind::Intrinsic(i) => match &**i {
                        mir::NonDivergingIntrinsic::Assume(o) => {
                            stmts.push(jarr(vec![jstr("assume"), self.operand(o, env), sp]));
                        }
                        mir::NonDivergingIntrinsic::CopyNonOverlapping(c) => {
                            stmts.push(jarr(vec![
                                jstr("copy_nonoverlapping"),
                                self.operand(&c.src, env),
                                self.operand(&c.dst, env),
                                self.operand(&c.count, env),
                                sp,
                            ]));
                        }
                    },
                    _ => {}
                }
            }
            let term = data.terminator();
            let tsp = self.span_pair(term.source_info.span);
            let t = match &term.kind {
                mir::TerminatorKind::Goto { target } => jarr(vec![jstr("goto"), jint(target.as_u32() as i128)]),
                mir::TerminatorKind::SwitchInt { discr, targets } => {
                    let mut arms = Vec::new();
                    for (v, bb) in targets.iter() {
                        arms.push(jarr(vec![jstr(format!("{}", v)), jint(bb.as_u32() as i128)]));
                    }
                    jarr(vec![
                        jstr("switch"),
                        self.operand(discr, env),
                        jarr(arms),
                        jint(targets.otherwise().as_u32() as i128),
                        tsp,
                    ])
                }
                mir::TerminatorKind::Return => jarr(vec![jstr("ret")]),
                mir::TerminatorKind::Unreachable => jarr(vec![jstr("unreachable")]),
                mir::TerminatorKind::UnwindResume => jarr(vec![jstr("resume")]),
                mir::TerminatorKind::UnwindTerminate(_) => jarr(vec![jstr("abort")]),
                mir::TerminatorKind::Drop { place, target, .. } => {
                    jarr(vec![jstr("drop"), self.place(place), jint(target.as_u32() as i128)])
                }
                mir::TerminatorKind::Call { func, args, destination, target, fn_span, .. } => {
                    let callee = match func {
                        mir::Operand::Constant(c) => match c.const_.ty().kind() {
                            ty::FnDef(def, gargs) => self.callee(*def, gargs, env),
                            _ => jobj(vec![("indirect", self.operand(func, env))]),
                        },
                        _ => jobj(vec![("indirect", self.operand(func, env))]),
                    };
                    let a: Vec<J> = args.iter().map(|o| self.operand(&o.node, env)).collect();
                    jarr(vec![
                        jstr("call"),
                        callee,
                        jarr(a),
                        self.place(destination),
                        target.map(|t| jint(t.as_u32() as i128)).unwrap_or(J::Null),
                        self.span_pair(*fn_span),
                    ])
                }
                mir::TerminatorKind::Assert { cond, expected, msg, target, .. } => {
                    let (kind, ops): (String, Vec<J>) = match &**msg {
                        mir::AssertKind::BoundsCheck { len, index } => (
                            "BoundsCheck".into(),
                            vec![self.operand(len, env), self.operand(index, env)],
                        ),
                        mir::AssertKind::Overflow(op, a, b) => (
                            format!("Overflow({:?})", op),
                            vec![self.operand(a, env), self.operand(b, env)],
                        ),
                        mir::AssertKind::OverflowNeg(a) => ("OverflowNeg".into(), vec![self.operand(a, env)]),
                        mir::AssertKind::DivisionByZero(a) => {
                            ("DivisionByZero".into(), vec![self.operand(a, env)])
                        }
                        mir::AssertKind::RemainderByZero(a) => {
                            ("RemainderByZero".into(), vec![self.operand(a, env)])
                        }
                        mir::AssertKind::MisalignedPointerDereference { required, found } => (
                            "MisalignedPointerDereference".into(),
                            vec![self.operand(required, env), self.operand(found, env)],
                        ),
                        mir::AssertKind::NullPointerDereference => ("NullPointerDereference".into(), vec![]),
                        other => (format!("{:?}", other), vec![]),
                    };
                    jarr(vec![
                        jstr("assert"),
                        self.operand(cond, env),
                        J::Bool(*expected),
                        jstr(kind),
                        jint(target.as_u32() as i128),
                        tsp,
                        jarr(ops),
                    ])
                }
                mir::TerminatorKind::FalseEdge { real_target, .. } => {
                    jarr(vec![jstr("goto"), jint(real_target.as_u32() as i128)])
                }
                mir::TerminatorKind::FalseUnwind { real_target, .. } => {
                    jarr(vec![jstr("goto"), jint(real_target.as_u32() as i128)])
                }
                other => jarr(vec![jstr("other"), jstr(format!("{:?}", other))]),
            };
            blocks.push(jobj(vec![
                ("s", jarr(stmts)),
                ("t", t),
                ("cleanup", J::Bool(data.is_cleanup)),
            ]));
        }
        let kind = format!("{:?}", tcx.def_kind(def));
        let mut f: Vec<(&str, J)> = vec![
            ("key", jstr(key)),
            ("def", jstr(self.path(def))),
            ("krate", jstr(self.krate_of(def))),
            ("kind", jstr(kind)),
            ("span", self.span_pair(body.span)),
            ("argc", jint(body.arg_count as i128)),
            ("locals", jarr(locals)),
            ("names", J::Obj(names)),
            ("blocks", jarr(blocks)),
            ("poly", J::Bool(inst.args.has_param())),
        ];
        if def.is_local() {
            if matches!(tcx.def_kind(def), DefKind::Fn | DefKind::AssocFn) {
                f.push(("pub", J::Bool(tcx.visibility(def).is_public())));
                let attrs = tcx.codegen_fn_attrs(def);
                f.push(("inline", jstr(format!("{:?}", attrs.inline))));
            }
        }
        jobj(f)
    }

    // ------------------------------------------------------------ item tables
    fn dump_crate(&mut self) -> J {
        let tcx = self.tcx;
        let krate = tcx.crate_name(LOCAL_CRATE).to_string();
        let mut adts = Vec::new();
        let mut impls = Vec::new();
        let mut statics = Vec::new();
        let mut consts = Vec::new();
        let mut fns = Vec::new();
        let mut foreign = Vec::new();
        let mut traits = Vec::new();

        let defs: Vec<_> = tcx.hir_crate_items(()).definitions().collect();
        for ldid in defs {
            let def = ldid.to_def_id();
            let dk = tcx.def_kind(def);
            match dk {
                DefKind::Struct | DefKind::Enum | DefKind::Union => {
                    let adt = tcx.adt_def(def);
                    let mut variants = Vec::new();
                    for v in adt.variants().iter() {
                        let mut fields = Vec::new();
                        for f in v.fields.iter() {
                            let fty = tcx.type_of(f.did).instantiate_identity().skip_norm_wip();
                            let fid = self.ty(fty);
                            fields.push(jobj(vec![
                                ("name", jstr(f.name.to_string())),
                                ("ty", jstr(format!("{}", fty))),
                                ("tyid", jint(fid as i128)),
                                ("vis", jstr(format!("{:?}", f.vis))),
                                ("pub", J::Bool(f.vis.is_public())),
                            ]));
                        }
                        variants.push(jobj(vec![("name", jstr(v.name.to_string())), ("fields", jarr(fields))]));
                    }
                    let self_ty = tcx.type_of(def).instantiate_identity().skip_norm_wip();
                    let generics: Vec<J> = tcx
                        .generics_of(def)
                        .own_params
                        .iter()
                        .map(|p| jstr(p.name.to_string()))
                        .collect();
                    adts.push(jobj(vec![
                        ("path", jstr(self.path(def))),
                        ("kind", jstr(format!("{:?}", dk))),
                        ("pub", J::Bool(tcx.visibility(def).is_public())),
                        ("generics", jarr(generics)),
                        ("variants", jarr(variants)),
                        ("span", jstr(self.span_str(tcx.def_span(def)))),
                        ("freeze", J::Bool(self_ty.is_freeze(tcx, TypingEnv::post_analysis(tcx, def)))),
                        ("repr", jstr(format!("{:?}", adt.repr()))),
                    ]));
                }
                DefKind::Impl { of_trait } => {
                    let self_ty = tcx.type_of(def).instantiate_identity().skip_norm_wip();
                    let mut f: Vec<(&str, J)> = vec![
                        ("path", jstr(self.path(def))),
                        ("self_ty", jstr(format!("{}", self_ty))),
                        ("derived", J::Bool(tcx.is_automatically_derived(def))),
                        ("span", self.span_pair(tcx.def_span(def))),
                    ];
                    if let ty::Adt(a, _) = self_ty.kind() {
                        f.push(("self_adt", jstr(self.path(a.did()))));
                    }
                    let mut methods = Vec::new();
                    let mut have = HashSet::new();
                    for item in tcx.associated_items(def).in_definition_order() {
                        if item.is_fn() {
                            let inst = Instance::new_raw(
                                item.def_id,
                                ty::GenericArgs::identity_for_item(tcx, item.def_id),
                            );
                            methods.push((item.name().to_string(), jstr(self.instance_key(inst))));
                            have.insert(item.name());
                        }
                    }
                    f.push(("methods", J::Obj(methods)));
                    if of_trait {
                        let tr = tcx.impl_trait_ref(def).instantiate_identity().skip_norm_wip();
                        f.push(("trait", jstr(self.path(tr.def_id))));
                        f.push(("trait_ref", jstr(format!("{}", tr))));
                        let mut inherited = Vec::new();
                        for item in tcx.associated_items(tr.def_id).in_definition_order() {
                            if item.is_fn() && !have.contains(&item.name()) {
                                inherited.push(jstr(item.name().to_string()));
                            }
                        }
                        f.push(("inherited", jarr(inherited)));
                        f.push(("unsafe_impl", J::Bool(tcx.impl_trait_header(def).safety.is_unsafe())));
                    } else {
                        f.push(("trait", J::Null));
                    }
                    impls.push(jobj(f));
                }
                DefKind::Static { mutability, nested, .. } => {
                    let t = tcx.type_of(def).instantiate_identity().skip_norm_wip();
                    statics.push(jobj(vec![
                        ("path", jstr(self.path(def))),
                        ("ty", jstr(format!("{}", t))),
                        ("mutable", J::Bool(mutability.is_mut())),
                        ("nested", J::Bool(nested)),
                        ("thread_local", J::Bool(tcx.is_thread_local_static(def))),
                        ("interior_mut", J::Bool(!t.is_freeze(tcx, TypingEnv::fully_monomorphized()))),
                        ("span", jstr(self.span_str(tcx.def_span(def)))),
                    ]));
                }
                DefKind::Const { .. } | DefKind::AssocConst { .. } => {
                    let t = tcx.type_of(def).instantiate_identity().skip_norm_wip();
                    let mut f: Vec<(&str, J)> = vec![
                        ("path", jstr(self.path(def))),
                        ("ty", jstr(format!("{}", t))),
                        ("span", jstr(self.span_str(tcx.def_span(def)))),
                    ];
                    if !t.has_param() {
                        f.push(("interior_mut", J::Bool(!t.is_freeze(tcx, TypingEnv::fully_monomorphized()))));
                        if tcx.generics_of(def).count() == 0 {
                            let c = mir::Const::from_unevaluated(tcx, def).instantiate_identity().skip_norm_wip();
                            let v = self.const_value(&c, TypingEnv::fully_monomorphized(), tcx.def_span(def));
                            f.push(("value", v));
                        }
                    }
                    consts.push(jobj(f));
                }
                DefKind::Fn | DefKind::AssocFn => {
                    let sig = tcx.fn_sig(def).instantiate_identity().skip_norm_wip();
                    fns.push(jobj(vec![
                        ("path", jstr(self.path(def))),
                        ("pub", J::Bool(tcx.visibility(def).is_public())),
                        ("unsafe", J::Bool(sig.safety().is_unsafe())),
                        ("sig", jstr(format!("{}", sig))),
                        ("span", jstr(self.span_str(tcx.def_span(def)))),
                        ("has_body", J::Bool(tcx.is_mir_available(def))),
                        ("foreign", J::Bool(tcx.is_foreign_item(def))),
                    ]));
                    if tcx.is_foreign_item(def) {
                        foreign.push(jstr(self.path(def)));
                    }
                }
                DefKind::Trait => {
                    traits.push(jstr(self.path(def)));
                }
                _ => {}
            }
        }

        // unsafe blocks
        let mut uv = UnsafeVisitor { tcx, out: Vec::new() };
        tcx.hir_visit_all_item_likes_in_crate(&mut uv);
        let unsafe_blocks: Vec<J> = uv
            .out
            .iter()
            .map(|(owner, sp, exp)| {
                jobj(vec![
                    ("fn", jstr(self.path(*owner))),
                    ("span", jstr(self.span_str(*sp))),
                    ("from_expansion", J::Bool(*exp)),
                ])
            })
            .collect();

        // bodies: roots = every local fn-like body owner with identity args
        let owners: Vec<_> = tcx.hir_body_owners().collect();
        for ldid in owners {
            let def = ldid.to_def_id();
            let dk = tcx.def_kind(def);
            if !matches!(dk, DefKind::Fn | DefKind::AssocFn | DefKind::Closure) {
                continue;
            }
            let args = ty::GenericArgs::identity_for_item(tcx, def);
            let inst = Instance::new_raw(def, args);
            let env = TypingEnv::post_analysis(tcx, def);
            self.enqueue(inst, env);
        }
        while let Some((inst, env)) = self.queue.pop_front() {
            let key = self.instance_key(inst);
            let j = self.dump_body(inst, env, &key);
            self.bodies.insert(key, j);
        }
        self.cur_env = None;

        let bodies = std::mem::take(&mut self.bodies);
        let tys = std::mem::take(&mut self.tys);
        jobj(vec![
            ("crate", jstr(krate)),
            ("rustc", jstr(option_env!("CFG_VERSION").unwrap_or("nightly"))),
            ("test_harness", J::Bool(tcx.sess.opts.test)),
            ("overflow_checks", J::Bool(tcx.sess.overflow_checks())),
            ("debug_assertions", J::Bool(tcx.sess.opts.debug_assertions)),
            ("adts", jarr(adts)),
            ("impls", jarr(impls)),
            ("statics", jarr(statics)),
            ("consts", jarr(consts)),
            ("fns", jarr(fns)),
            ("foreign", jarr(foreign)),
            ("traits", jarr(traits)),
            ("unsafe_blocks", jarr(unsafe_blocks)),
            ("tys", jarr(tys)),
            ("bodies", J::Obj(bodies.into_iter().collect())),
        ])
    }
}

struct UnsafeVisitor<'tcx> {
    tcx: TyCtxt<'tcx>,
    out: Vec<(DefId, Span, bool)>,
}

impl<'tcx> rustc_hir::intravisit::Visitor<'tcx> for UnsafeVisitor<'tcx> {
    type NestedFilter = rustc_middle::hir::nested_filter::OnlyBodies;
    fn maybe_tcx(&mut self) -> Self::MaybeTyCtxt {
        self.tcx
    }
    fn visit_block(&mut self, b: &'tcx rustc_hir::Block<'tcx>) {
        if let rustc_hir::BlockCheckMode::UnsafeBlock(src) = b.rules {
            let owner = self.tcx.hir_get_parent_item(b.hir_id).to_def_id();
            let user = matches!(src, rustc_hir::UnsafeSource::UserProvided);
            self.out.push((owner, b.span, b.span.from_expansion() || !user));
        }
        rustc_hir::intravisit::walk_block(self, b);
    }
}
