// Negative twin of pos.rs: must FAIL to type-check with E0277 (a timer capturing an Rc is not
// Send + Sync, so JitterRng::new_with_timer rejects it) -- shows the witness is able to fail.
#![allow(dead_code)]
use std::rc::Rc;

pub fn witness() {
    let shared = Rc::new(7u64);
    let timer = move || *shared;
    let _rng = rand_jitter::JitterRng::new_with_timer(timer);
}
