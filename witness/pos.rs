// Type-level witness for C19.R4: this crate type-checks iff every generator type is
// Send + Sync + 'static (JitterRng<F> for every Send + Sync + 'static timer F).
#![allow(dead_code)]
use rand_core::{RngCore, SeedableRng};

fn need<T: Send + Sync + 'static>() {}
fn need_rng<T: RngCore + Send + Sync + 'static>() {}
fn need_seedable<T: SeedableRng + RngCore + Clone + Send + Sync + 'static>() {}

fn jitter_generic<F: Fn() -> u64 + Send + Sync + 'static>() {
    need_rng::<rand_jitter::JitterRng<F>>();
}

pub fn witness() {
    need_seedable::<rand_xoshiro::SplitMix64>();
    need_seedable::<rand_xoshiro::Xoroshiro64Star>();
    need_seedable::<rand_xoshiro::Xoroshiro64StarStar>();
    need_seedable::<rand_xoshiro::Xoroshiro128Plus>();
    need_seedable::<rand_xoshiro::Xoroshiro128PlusPlus>();
    need_seedable::<rand_xoshiro::Xoroshiro128StarStar>();
    need_seedable::<rand_xoshiro::Xoshiro128Plus>();
    need_seedable::<rand_xoshiro::Xoshiro128PlusPlus>();
    need_seedable::<rand_xoshiro::Xoshiro128StarStar>();
    need_seedable::<rand_xoshiro::Xoshiro256Plus>();
    need_seedable::<rand_xoshiro::Xoshiro256PlusPlus>();
    need_seedable::<rand_xoshiro::Xoshiro256StarStar>();
    need_seedable::<rand_xoshiro::Xoshiro512Plus>();
    need_seedable::<rand_xoshiro::Xoshiro512PlusPlus>();
    need_seedable::<rand_xoshiro::Xoshiro512StarStar>();
    need::<rand_xoshiro::Seed512>();
    need_seedable::<rand_xorshift::XorShiftRng>();
    need_seedable::<rand_hc::Hc128Rng>();
    need::<rand_hc::Hc128Core>();
    need_seedable::<rand_isaac::IsaacRng>();
    need_seedable::<rand_isaac::Isaac64Rng>();
    need::<rand_isaac::isaac::IsaacCore>();
    need::<rand_isaac::isaac64::Isaac64Core>();
    need_rng::<rand_jitter::JitterRng<fn() -> u64>>();
    need::<rand_jitter::TimerError>();
}
