// Negative twin: a struct literal of a generator from outside the crate must be rejected
// (E0451: private field) -- the state can only be produced by the seeding API (C08.R6).
#![allow(dead_code)]
pub fn witness() {
    let _g = rand_xoshiro::Xoshiro256PlusPlus { s: [0; 4] };
}
