#!/bin/bash
# usage: corpus.sh [-jN]  -- every behaviour-preserving patch under /verif/refactors must leave all 19 checks silent
J=${1:--j2}; J=${J#-j}
cd /verif
ls refactors/*/r*.diff refactors/*.diff | xargs -P $J -I{} sh -c 'tools/refcheck.sh /verif/{} 2>&1 | cut -c1-300 | sed "s#^#{} :: #"' | sort
