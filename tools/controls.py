#!/usr/bin/env python3
"""Two-way test of the checkers: every control is an edit of a scratch copy of /repo (never /repo itself).

  fire   : a realistic breaking edit that still compiles; the listed checks must report a VIOLATION
  silent : a behaviour-preserving edit; the listed checks must stay silent

usage: tools/controls.py [name-substring ...]     (no argument: all controls)
Scratch copies live under /tmp and are removed as soon as a control is done.
"""
import os, shutil, subprocess, sys, tempfile, time

V = os.path.dirname(os.path.dirname(os.path.abspath(__file__)))
REPO = "/repo"


def rep(path, old, new, count=1):
    def f(root):
        p = os.path.join(root, path)
        s = open(p).read()
        if old not in s:
            raise RuntimeError("control anchor not found in %s: %r" % (path, old[:60]))
        s = s.replace(old, new, count)
        open(p, "w").write(s)
    return f


def seq(*fs):
    def f(root):
        for g in fs:
            g(root)
    return f


X = "rand_xoshiro/src/"
J = "rand_jitter/src/lib.rs"
XS = "rand_xorshift/src/lib.rs"
IS = "rand_isaac/src/isaac.rs"
HC = "rand_hc/src/hc128.rs"
HWBAD5 = """        let mut chunks = dest.chunks_exact_mut(8);
        for chunk in &mut chunks {
            chunk.copy_from_slice(&self.next_u64().to_le_bytes());
        }
        let tail = chunks.into_remainder();
        let n = tail.len();
        if n > 5 {
            tail.copy_from_slice(&self.next_u64().to_le_bytes()[..n]);
        } else if n > 0 {
            tail.copy_from_slice(&self.next_u32().to_le_bytes()[..n]);
        }"""
CONTROLS = [
    # ------------------------------------------------------------------ must fire
    ("fire", "xoshiro256 rotate 45->44", rep(X + "common.rs", "$self.s[3] = $self.s[3].rotate_left(45);", "$self.s[3] = $self.s[3].rotate_left(44);"), ["C01", "C07", "C06"]),
    ("fire", "** scrambler *9 -> *7", rep(X + "common.rs", "$x.wrapping_mul(5).rotate_left(7).wrapping_mul(9)", "$x.wrapping_mul(5).rotate_left(7).wrapping_mul(7)"), ["C01"]),
    ("fire", "xoshiro256++ next_u32 upper->lower half", rep(X + "xoshiro256plusplus.rs", "(self.next_u64() >> 32) as u32", "self.next_u64() as u32"), ["C05"]),
    ("fire", "one JUMP word altered (xoshiro512+)", rep(X + "xoshiro512plus.rs", "0x33ed89b6e7a353f9", "0x33ed89b6e7a353f8"), ["C06"]),
    ("fire", "jump inner loop 0..63 (u64x4 arm)", rep(X + "common.rs", "for b in 0..64 {\n                if (j & 1 << b) != 0 {\n                    s0 ^= $self.s[0];", "for b in 0..63 {\n                if (j & 1 << b) != 0 {\n                    s0 ^= $self.s[0];"), ["C06"]),
    ("fire", "deal_with_zero_seed deleted (xoshiro256**)", rep(X + "xoshiro256starstar.rs", "        deal_with_zero_seed!(seed, Self);\n", ""), ["C08"]),
    ("fire", "zero seed mapped to seed_from_u64(1)", rep(X + "common.rs", "return $Self::seed_from_u64(0);", "return $Self::seed_from_u64(1);"), ["C08"]),
    ("fire", "from_splitmix starts at x^1", rep(X + "common.rs", "crate::SplitMix64::seed_from_u64($seed);", "crate::SplitMix64::seed_from_u64($seed ^ 1);"), ["C09"]),
    ("fire", "xorshift shift 19->18", rep("rand_xorshift/src/lib.rs", "w_ ^ (w_ >> 19)", "w_ ^ (w_ >> 18)"), ["C04", "C07"]),
    ("fire", "xorshift redraw loop removed", rep("rand_xorshift/src/lib.rs", "        loop {\n            rng.fill_bytes(b.as_mut());\n            if b != [0; 16] {\n                break;\n            }\n        }", "        rng.fill_bytes(b.as_mut());"), ["C08", "C09"]),
    ("fire", "ISAAC try_from_rng single pass", rep("rand_isaac/src/isaac.rs", "        Ok(Self::init(seed, 2))", "        Ok(Self::init(seed, 1))"), ["C09"]),
    ("fire", "ISAAC ind shift 2->3", rep("rand_isaac/src/isaac.rs", "let y = *a + *b + ind(mem, x, 2);", "let y = *a + *b + ind(mem, x, 3);"), ["C03"]),
    ("fire", "ISAAC-64 results order", rep("rand_isaac/src/isaac64.rs", "results[RAND_SIZE - 1 - base - m] = b.0;", "results[base + m] = b.0;"), ["C03"]),
    ("fire", "HC-128 key words swapped in expansion", rep("rand_hc/src/hc128.rs", "        t[4..8].copy_from_slice(key);", "        t[4..8].copy_from_slice(&[key[0], key[2], key[1], key[3]]);"), ["C02"]),
    ("fire", "HC-128 ee+13 -> ee+12 (one call site)", rep("rand_hc/src/hc128.rs", "results[7] = self.step_p(cc + 7, cc + 8, cc + 4, ee + 13, ee + 11);", "results[7] = self.step_p(cc + 7, cc + 8, cc + 4, ee + 12, ee + 11);"), ["C02"]),
    ("fire", "HC-128 h1 byte 2 -> byte 1", rep("rand_hc/src/hc128.rs", "let c = (p[i12] >> 16) as u8;", "let c = (p[i12] >> 8) as u8;"), ["C02"]),
    ("fire", "Hc128Rng::eq ignores index", rep("rand_hc/src/hc128.rs", "self.0.core == rhs.0.core && self.0.index() == rhs.0.index()", "self.0.core == rhs.0.core"), ["C10"]),
    ("fire", "IsaacCore::eq ignores c", rep("rand_isaac/src/isaac.rs", " && self.b == other.b && self.c == other.c", " && self.b == other.b"), ["C10"]),
    ("fire", "serde(skip) on XorShiftRng.w", rep("rand_xorshift/src/lib.rs", "    w: w<u32>,\n}", "    #[cfg_attr(feature = \"serde\", serde(skip))]\n    w: w<u32>,\n}"), ["C11"]),
    ("fire", "isaac_array_serde tuple length 255", rep("rand_isaac/src/isaac_array.rs", "ser.serialize_tuple(RAND_SIZE)", "ser.serialize_tuple(RAND_SIZE - 1)"), ["C11"]),
    ("fire", "LFSR tap 60->61", rep("rand_jitter/src/lib.rs", "data ^= (data >> 60) & 1;", "data ^= (data >> 61) & 1;"), ["C12"]),
    ("fire", "jitter rotate_left(7) -> << 7", rep("rand_jitter/src/lib.rs", "self.data = self.data.rotate_left(7);", "self.data = self.data << 7;"), ["C15", "C12"]),
    ("fire", "stir_pool |= instead of ^=", rep("rand_jitter/src/lib.rs", "        self.data ^= mixer;", "        self.data |= mixer;"), ["C15", "C12"]),
    ("fire", "rounds loop shortened", rep("rand_jitter/src/lib.rs", "for _ in 0..self.rounds {", "for _ in 1..self.rounds {"), ["C16"]),
    ("fire", "clone copies data_half_used", rep("rand_jitter/src/lib.rs", "            data_half_used: false,\n        }\n    }\n}\n\n// Initialise to zero", "            data_half_used: self.data_half_used,\n        }\n    }\n}\n\n// Initialise to zero"), ["C16"]),
    ("fire", "test_timer guard back to < TESTLOOPCOUNT", rep("rand_jitter/src/lib.rs", "if delta_sum < 2 * TESTLOOPCOUNT {", "if delta_sum < TESTLOOPCOUNT {"), ["C13", "C14"]),
    ("fire", "stuck uses checked subtraction again", rep("rand_jitter/src/lib.rs", "let delta2 = self.last_delta.wrapping_sub(current_delta);", "let delta2 = self.last_delta - current_delta;"), ["C14"]),
    ("fire", "SplitMix64 x + PHI unchecked", rep(X + "splitmix64.rs", "    fn next_u64(&mut self) -> u64 {\n        self.x = self.x.wrapping_add(PHI);", "    fn next_u64(&mut self) -> u64 {\n        self.x = self.x + PHI;"), ["C14", "C18"]),
    ("fire", "HC-128 assert chain shortened + index off by one", rep("rand_hc/src/hc128.rs", "results[15] = self.step_p(cc + 15, dd + 0, cc + 12, cc + 5, cc + 3);", "results[15] = self.step_p(cc + 15, dd + 512, cc + 12, cc + 5, cc + 3);"), ["C14", "C02"]),
    ("fire", "Hc128Core Debug prints counter", rep("rand_hc/src/hc128.rs", "write!(f, \"Hc128Core {{}}\")", "write!(f, \"Hc128Core {{ {} }}\", self.counter1024)"), ["C17"]),
    ("fire", "cfg!(debug_assertions) in a step", rep(X + "splitmix64.rs", "        z = (z ^ (z >> 30)).wrapping_mul(0xbf58476d1ce4e5b9);", "        if cfg!(debug_assertions) { z = z.rotate_left(1); }\n        z = (z ^ (z >> 30)).wrapping_mul(0xbf58476d1ce4e5b9);"), ["C18"]),
    ("fire", "static cache in SplitMix64::next_u64", seq(
        rep(X + "splitmix64.rs", "const PHI: u64 = 0x9e3779b97f4a7c15;", "const PHI: u64 = 0x9e3779b97f4a7c15;\nstatic LAST: core::sync::atomic::AtomicU64 = core::sync::atomic::AtomicU64::new(0);"),
        rep(X + "splitmix64.rs", "    fn next_u64(&mut self) -> u64 {\n        self.x = self.x.wrapping_add(PHI);", "    fn next_u64(&mut self) -> u64 {\n        LAST.store(self.x, core::sync::atomic::Ordering::Relaxed);\n        self.x = self.x.wrapping_add(PHI);")), ["C19"]),
    # ------------------------------------------------------------------ must stay silent
    ("silent", "independent xors reordered", rep(X + "common.rs", "        $self.s[2] ^= $self.s[0];\n        $self.s[3] ^= $self.s[1];\n        $self.s[1] ^= $self.s[2];\n        $self.s[0] ^= $self.s[3];\n\n        $self.s[2] ^= t;\n\n        $self.s[3] = $self.s[3].rotate_left(45);",
                                              "        $self.s[3] ^= $self.s[1];\n        $self.s[2] ^= $self.s[0];\n        $self.s[0] ^= $self.s[3];\n        $self.s[1] ^= $self.s[2];\n\n        $self.s[2] ^= t;\n\n        $self.s[3] = $self.s[3].rotate_left(45);"), ["C01", "C06", "C07", "C18"]),
    ("silent", "rotate_left(45) as rotate_right(19)", rep(X + "common.rs", "$self.s[3] = $self.s[3].rotate_left(45);", "$self.s[3] = $self.s[3].rotate_right(19);"), ["C01", "C06", "C07"]),
    ("silent", "rotate written as shifts", rep(X + "common.rs", "$self.s0 = $self.s0.rotate_left(24) ^ $self.s1 ^ ($self.s1 << 16);", "$self.s0 = (($self.s0 << 24) | ($self.s0 >> 40)) ^ $self.s1 ^ ($self.s1 << 16);"), ["C01", "C06", "C07", "C14"]),
    ("silent", "*5 as (x<<2)+x", rep(X + "common.rs", "$x.wrapping_mul(5).rotate_left(7).wrapping_mul(9)", "(($x << 2).wrapping_add($x)).rotate_left(7).wrapping_mul(9)"), ["C01", "C05", "C14"]),
    ("silent", "next_u64_via_u32 written out", rep("rand_xorshift/src/lib.rs", "        impls::next_u64_via_u32(self)", "        let x = u64::from(self.next_u32());\n        let y = u64::from(self.next_u32());\n        (y << 32) | x"), ["C05", "C14", "C18"]),
    ("silent", "zero test via iter().all in the 3-arg arm", rep(X + "common.rs", "        if $seed == [0; $bytes] {", "        if $seed.iter().all(|&x| x == 0) {"), ["C01", "C08", "C09"]),
    ("silent", "finalizer extracted into a private fn", seq(
        rep(X + "splitmix64.rs", "        z = (z ^ (z >> 30)).wrapping_mul(0xbf58476d1ce4e5b9);\n        z = (z ^ (z >> 27)).wrapping_mul(0x94d049bb133111eb);\n        z ^ (z >> 31)", "        finalize(z)"),
        rep(X + "splitmix64.rs", "const PHI: u64 = 0x9e3779b97f4a7c15;", "const PHI: u64 = 0x9e3779b97f4a7c15;\n\n#[inline]\nfn finalize(mut z: u64) -> u64 {\n    z = (z ^ (z >> 30)).wrapping_mul(0xbf58476d1ce4e5b9);\n    z = (z ^ (z >> 27)).wrapping_mul(0x94d049bb133111eb);\n    z ^ (z >> 31)\n}")), ["C01", "C08", "C09", "C14", "C18", "C19"]),
    ("silent", "HC-128 phase test as % 1024 < 512", rep("rand_hc/src/hc128.rs", "        if self.counter1024 & 512 == 0 {", "        if self.counter1024 % 1024 < 512 {"), ["C02", "C14"]),
    ("silent", "LFSR tap without the redundant mask", rep("rand_jitter/src/lib.rs", "data ^= (data >> 63) & 1;", "data ^= data >> 63;"), ["C12", "C15", "C14"]),
    ("silent", "test_timer guard as mean < 2", rep("rand_jitter/src/lib.rs", "if delta_sum < 2 * TESTLOOPCOUNT {", "if delta_sum / TESTLOOPCOUNT < 2 {"), ["C13", "C14"]),
    ("silent", "stir_pool with an if instead of the mask trick", rep("rand_jitter/src/lib.rs", "            let apply = (self.data >> i) & 1;\n            let mask = !apply.wrapping_sub(1);\n            mixer ^= CONSTANT & mask;", "            if (self.data >> i) & 1 == 1 {\n                mixer ^= CONSTANT;\n            }"), ["C12", "C15"]),
    ("silent", "Hc128Rng::eq compares in the other order", rep("rand_hc/src/hc128.rs", "self.0.core == rhs.0.core && self.0.index() == rhs.0.index()", "self.0.index() == rhs.0.index() && self.0.core == rhs.0.core"), ["C10"]),
    ("silent", "ISAAC rngstep sum reassociated", rep("rand_isaac/src/isaac.rs", "let y = *a + *b + ind(mem, x, 2);", "let y = ind(mem, x, 2) + (*b + *a);"), ["C03", "C14"]),
    ("silent", "docs and a local renamed", rep("rand_xorshift/src/lib.rs", "        let x = self.x;\n        let t = x ^ (x << 11);", "        // first state word\n        let first = self.x;\n        let t = first ^ (first << 11);"), ["C04", "C07", "C14"]),
    ("silent", "fill_bytes hand-written to the table (xoshiro256++)", rep(X + "xoshiro256plusplus.rs", "        fill_bytes_via_next(self, dest);", '        let mut chunks = dest.chunks_exact_mut(8);\n        for chunk in &mut chunks {\n            chunk.copy_from_slice(&self.next_u64().to_le_bytes());\n        }\n        let tail = chunks.into_remainder();\n        let n = tail.len();\n        if n > 4 {\n            tail.copy_from_slice(&self.next_u64().to_le_bytes()[..n]);\n        } else if n > 0 {\n            tail.copy_from_slice(&self.next_u32().to_le_bytes()[..n]);\n        }'), ["C05", "C14", "C18"]),
    ("silent", "fill_bytes hand-written to the table (jitter)", rep("rand_jitter/src/lib.rs", "        impls::fill_bytes_via_next(self, dest)\n", '        let mut chunks = dest.chunks_exact_mut(8);\n        for chunk in &mut chunks {\n            chunk.copy_from_slice(&self.next_u64().to_le_bytes());\n        }\n        let tail = chunks.into_remainder();\n        let n = tail.len();\n        if n > 4 {\n            tail.copy_from_slice(&self.next_u64().to_le_bytes()[..n]);\n        } else if n > 0 {\n            tail.copy_from_slice(&self.next_u32().to_le_bytes()[..n]);\n        }\n'), ["C05", "C16"]),
    ("fire", "fill_bytes hand-written, 4-byte tail from next_u64", rep(X + "xoshiro256plusplus.rs", "        fill_bytes_via_next(self, dest);", '        let mut chunks = dest.chunks_exact_mut(8);\n        for chunk in &mut chunks {\n            chunk.copy_from_slice(&self.next_u64().to_le_bytes());\n        }\n        let tail = chunks.into_remainder();\n        let n = tail.len();\n        if n > 3 {\n            tail.copy_from_slice(&self.next_u64().to_le_bytes()[..n]);\n        } else if n > 0 {\n            tail.copy_from_slice(&self.next_u32().to_le_bytes()[..n]);\n        }'), ["C05"]),
    ("fire", "fill_bytes hand-written, 5-byte tail sliced from 4 bytes", rep(X + "xoshiro256plusplus.rs", "        fill_bytes_via_next(self, dest);", HWBAD5), ["C14", "C05"]),
    ("fire", "memaccess index differs under feature=log (inside the loop)", rep("rand_jitter/src/lib.rs", "            mem[index] = mem[index].wrapping_add(1);\n", "            #[cfg(feature = \"log\")]\n            let index = index ^ 1;\n            mem[index] = mem[index].wrapping_add(1);\n"), ["C18"]),
    ("fire", "jitter fill_bytes straight from gen_entropy, half kept", rep("rand_jitter/src/lib.rs", "        impls::fill_bytes_via_next(self, dest)\n", '        let mut chunks = dest.chunks_exact_mut(8);\n        for chunk in &mut chunks {\n            chunk.copy_from_slice(&self.gen_entropy().to_le_bytes());\n        }\n        impls::fill_bytes_via_next(self, chunks.into_remainder())\n'), ["C16", "C05"]),
    # ------------------------------------------------------------------ second batch of behaviour-preserving edits
    ("silent", "S2 jump outer loop as JUMP.iter() (u64x4)", rep(X + "common.rs", "        let mut s3 = 0;\n        for j in &JUMP {\n            for b in 0..64 {", "        let mut s3 = 0;\n        for j in JUMP.iter() {\n            for b in 0..64 {"), ["C06", "C14"]),
    ("silent", "S2 jump indexed loop and shifted bit test (u64x2)", rep(X + "common.rs", "        for j in &JUMP {\n            for b in 0..64 {\n                if (j & 1 << b) != 0 {\n                    s0 ^= $self.s0;", "        for i in 0..JUMP.len() {\n            let j = JUMP[i];\n            for b in 0..64 {\n                if (j >> b) & 1 == 1 {\n                    s0 ^= $self.s0;"), ["C06", "C14"]),
    ("silent", "S2 ++ scrambler with the outer sum commuted", rep(X + "common.rs", "$x.wrapping_add($y).rotate_left($rot).wrapping_add($x)", "$x.wrapping_add($x.wrapping_add($y).rotate_left($rot))"), ["C01", "C14"]),
    ("silent", "S2 SplitMix64 step through a local", seq(
        rep(X + "splitmix64.rs", "        self.x = self.x.wrapping_add(PHI);\n        let mut z = self.x;\n        z = (z ^ (z >> 30))", "        let mut z = self.x.wrapping_add(PHI);\n        self.x = z;\n        z = (z ^ (z >> 30))"),
        rep(X + "splitmix64.rs", "        z ^ (z >> 31)", "        (z >> 31) ^ z")), ["C01", "C05", "C09", "C08"]),
    ("silent", "S2 xorshift xor chain regrouped", rep(XS, "self.w = w_ ^ (w_ >> 19) ^ (t ^ (t >> 8));", "self.w = (t >> 8) ^ t ^ (w_ >> 19) ^ w_;"), ["C04", "C07", "C14"]),
    ("silent", "S2 xorshift zero test via iter().all", rep(XS, "        if seed_u32 == [0; 4] {", "        if seed_u32.iter().all(|&v| v == 0) {"), ["C04", "C08", "C14"]),
    ("silent", "S2 xorshift redraw test via iter().any", rep(XS, "            rng.fill_bytes(b.as_mut());\n            if b != [0; 16] {\n                break;\n            }", "            rng.fill_bytes(b.as_mut());\n            if b.iter().any(|&v| v != 0) {\n                break;\n            }"), ["C08", "C09", "C14"]),
    ("silent", "S2 ISAAC ind with a mask instead of %", rep(IS, "let index = (v >> amount).0 as usize % RAND_SIZE;", "let index = ((v.0 >> amount) as usize) & (RAND_SIZE - 1);"), ["C03", "C14"]),
    ("silent", "S2 ISAAC generate first half with step_by", rep(IS, "        let mut m2 = MIDPOINT;\n        for i in (0..MIDPOINT / 4).map(|i| i * 4) {", "        let mut m2 = MIDPOINT;\n        for i in (0..MIDPOINT).step_by(4) {"), ["C03", "C14"]),
    ("silent", "S2 ISAAC init with step_by", rep(IS, "            for i in (0..RAND_SIZE / 8).map(|i| i * 8) {", "            for i in (0..RAND_SIZE).step_by(8) {"), ["C03", "C09", "C14"]),
    ("silent", "S2 HC-128 h1 bytes via to_le_bytes", rep(HC, "            let a = p[i12] as u8;\n            let c = (p[i12] >> 16) as u8;\n            q[a as usize]", "            let bytes = p[i12].to_le_bytes();\n            let a = bytes[0];\n            let c = bytes[2];\n            q[a as usize]"), ["C02", "C14"]),
    ("silent", "S2 HC-128 f1 with shifts for one rotate", rep(HC, "x.rotate_right(7) ^ x.rotate_right(18) ^ (x >> 3)", "((x >> 7) | (x << 25)) ^ x.rotate_left(14) ^ (x >> 3)"), ["C02", "C14"]),
    ("silent", "S2 jitter memaccess index with a mask", rep(J, "index = (index + MEMORY_BLOCKSIZE - 1) % MEMORY_SIZE;", "index = (index + MEMORY_BLOCKSIZE - 1) & (MEMORY_SIZE - 1);"), ["C12", "C14", "C18"]),
    ("silent", "S2 jitter lfsr bit extraction by shift and mask", rep(J, "            for i in 1..65 {\n                let mut tmp = time << (64 - i);\n                tmp >>= 64 - 1;\n", "            for i in 0..64 {\n                let tmp = (time >> i) & 1;\n"), ["C12", "C15", "C14"]),
    ("silent", "S2 jitter stuck disjunction reordered", rep(J, "current_delta == 0 || delta2 == 0 || delta3 == 0", "delta3 == 0 || delta2 == 0 || current_delta == 0"), ["C12", "C13", "C14", "C16"]),
    ("silent", "S2 jitter random_loop_cnt mask by shifting", rep(J, "        let mask = (1 << n_bits) - 1;", "        let mask = !(!0u64 << n_bits);"), ["C12", "C14"]),
    ("silent", "S2 jitter stuck loop as loop/break", rep(J, "            while self.measure_jitter(&mut ec).is_none() {}", "            loop {\n                if self.measure_jitter(&mut ec).is_some() {\n                    break;\n                }\n            }"), ["C12", "C16", "C14", "C15"]),
    ("silent", "S2 xoroshiro128++ lower half via mask", rep(X + "xoroshiro128plusplus.rs", "self.next_u64() as u32", "(self.next_u64() & 0xffff_ffff) as u32"), ["C05", "C14"]),
    ("silent", "S2 Seed512 zero test via !any", rep(X + "common.rs", "        if $seed.iter().all(|&x| x == 0) {", "        if !$seed.iter().any(|&x| x != 0) {"), ["C01", "C08", "C09"]),
    ("silent", "S2 XorShiftRng hand-written Clone", seq(
        rep(XS, "#[derive(Clone, PartialEq, Eq)]\n#[cfg_attr(feature = \"serde\", derive(Serialize, Deserialize))]\npub struct XorShiftRng {", "#[derive(PartialEq, Eq)]\n#[cfg_attr(feature = \"serde\", derive(Serialize, Deserialize))]\npub struct XorShiftRng {"),
        rep(XS, "// Custom Debug implementation that does not expose the internal state\n", "impl Clone for XorShiftRng {\n    fn clone(&self) -> Self {\n        XorShiftRng { x: self.x, y: self.y, z: self.z, w: self.w }\n    }\n}\n\n// Custom Debug implementation that does not expose the internal state\n")), ["C10", "C19", "C14", "C11"]),
    ("silent", "S2 XorShiftRng Debug via debug_struct", rep(XS, "        write!(f, \"XorShiftRng {{}}\")", "        f.debug_struct(\"XorShiftRng\").finish()"), ["C17", "C14"]),
    ("silent", "S2 JitterRng Debug via write_str", rep(J, "        write!(f, \"JitterRng {{}}\")", "        f.write_str(\"JitterRng {}\")"), ["C17", "C14"]),
    ("silent", "S2 jitter pending half kept as Option<u32>", seq(
        rep(J, "    data_half_used: bool,", "    data_half: Option<u32>,"),
        rep(J, "            data_half_used: false,", "            data_half: None,", 2),
        rep(J, "        if self.data_half_used {\n            self.data_half_used = false;\n            (self.data >> 32) as u32\n        } else {\n            self.data = self.next_u64();\n            self.data_half_used = true;\n            self.data as u32\n        }",
            "        if let Some(half) = self.data_half.take() {\n            half\n        } else {\n            self.data = self.next_u64();\n            self.data_half = Some((self.data >> 32) as u32);\n            self.data as u32\n        }"),
        rep(J, "        self.data_half_used = false;\n        self.gen_entropy()", "        self.data_half = None;\n        self.gen_entropy()")), ["C16", "C05", "C12", "C14", "C15", "C18", "C19"]),
    ("fire", "S2f Option<u32> half: clone keeps the original's half", seq(
        rep(J, "    data_half_used: bool,", "    data_half: Option<u32>,"),
        rep(J, "            data_half_used: false,", "            data_half: self.data_half,", 1),
        rep(J, "            data_half_used: false,", "            data_half: None,", 1),
        rep(J, "        if self.data_half_used {\n            self.data_half_used = false;\n            (self.data >> 32) as u32\n        } else {\n            self.data = self.next_u64();\n            self.data_half_used = true;\n            self.data as u32\n        }",
            "        if let Some(half) = self.data_half.take() {\n            half\n        } else {\n            self.data = self.next_u64();\n            self.data_half = Some((self.data >> 32) as u32);\n            self.data as u32\n        }"),
        rep(J, "        self.data_half_used = false;\n        self.gen_entropy()", "        self.data_half = None;\n        self.gen_entropy()")), ["C16"]),
    ("fire", "S2f Option<u32> half: next_u64 keeps a pending half", seq(
        rep(J, "    data_half_used: bool,", "    data_half: Option<u32>,"),
        rep(J, "            data_half_used: false,", "            data_half: None,", 2),
        rep(J, "        if self.data_half_used {\n            self.data_half_used = false;\n            (self.data >> 32) as u32\n        } else {\n            self.data = self.next_u64();\n            self.data_half_used = true;\n            self.data as u32\n        }",
            "        if let Some(half) = self.data_half.take() {\n            half\n        } else {\n            let v = self.gen_entropy();\n            self.data = v;\n            self.data_half = Some((v >> 32) as u32);\n            v as u32\n        }"),
        rep(J, "        self.data_half_used = false;\n        self.gen_entropy()", "        self.gen_entropy()")), ["C16"]),
    ("silent", "S2 jitter LFSR taps in a read-only static table", seq(
        rep(J, "const MEMORY_BLOCKS: usize = 64;", "const MEMORY_BLOCKS: usize = 64;\nstatic LFSR_TAPS: [u32; 6] = [63, 60, 55, 30, 27, 22];"),
        rep(J, "                data ^= (data >> 63) & 1;\n                data ^= (data >> 60) & 1;\n                data ^= (data >> 55) & 1;\n                data ^= (data >> 30) & 1;\n                data ^= (data >> 27) & 1;\n                data ^= (data >> 22) & 1;\n",
            "                for tap in LFSR_TAPS.iter() {\n                    data ^= (data >> *tap) & 1;\n                }\n")), ["C12", "C15", "C19", "C14", "C18"]),
    ("fire", "S2f new unsafe block in lfsr_time", rep(J, "        black_box(throw_away);", "        let _ = unsafe { core::ptr::read_volatile(&throw_away) };"), ["C18"]),
    ("silent", "S3 IsaacRng deserialize_with a forwarding helper", rep(IS, "pub struct IsaacRng(BlockRng<IsaacCore>);",
        "pub struct IsaacRng(\n    #[cfg_attr(feature = \"serde\", serde(deserialize_with = \"read_block\"))] BlockRng<IsaacCore>,\n);\n\n#[cfg(feature = \"serde\")]\nfn read_block<'de, D>(de: D) -> Result<BlockRng<IsaacCore>, D::Error>\nwhere\n    D: serde::Deserializer<'de>,\n{\n    BlockRng::<IsaacCore>::deserialize(de)\n}"), ["C11"]),
    ("fire", "S3f IsaacCore.b deserialize_with clears the low bit", rep(IS, "    a: w32,\n    b: w32,\n    c: w32,\n}\n\n// Custom Debug",
        "    a: w32,\n    #[cfg_attr(feature = \"serde\", serde(deserialize_with = \"read_b\"))]\n    b: w32,\n    c: w32,\n}\n\n#[cfg(feature = \"serde\")]\nfn read_b<'de, D>(de: D) -> Result<w32, D::Error>\nwhere\n    D: serde::Deserializer<'de>,\n{\n    let v = w32::deserialize(de)?;\n    Ok(w(v.0 & !1))\n}\n\n// Custom Debug"), ["C11"]),
    ("fire", "S3f IsaacCore.mem serialize_with writes 255 elements", seq(
        rep(IS, "        serde(with = \"super::isaac_array::isaac_array_serde\")\n    )]\n    mem: [w32; RAND_SIZE],",
            "        serde(serialize_with = \"write_mem\", deserialize_with = \"super::isaac_array::isaac_array_serde::deserialize\")\n    )]\n    mem: [w32; RAND_SIZE],"),
        rep(IS, "// Custom Debug implementation that does not expose the internal state\nimpl fmt::Debug for IsaacCore {",
            "#[cfg(feature = \"serde\")]\nfn write_mem<S: serde::Serializer>(arr: &[w32; RAND_SIZE], ser: S) -> Result<S::Ok, S::Error> {\n    use serde::ser::SerializeTuple;\n    let mut seq = ser.serialize_tuple(RAND_SIZE)?;\n    for e in arr.iter().skip(1) {\n        seq.serialize_element(e)?;\n    }\n    seq.serialize_element(&arr[0])?;\n    seq.end()\n}\n\n// Custom Debug implementation that does not expose the internal state\nimpl fmt::Debug for IsaacCore {")), ["C11"]),
    ("silent", "S3 IsaacCore::init takes a key slice and zero-extends it", seq(
        rep(IS, "    fn init(mut mem: [w32; RAND_SIZE], rounds: u32) -> Self {", "    fn init(key: &[w32], rounds: u32) -> Self {\n        let mut mem = [w(0); RAND_SIZE];\n        for (x, y) in mem.iter_mut().zip(key.iter()) {\n            *x = *y;\n        }"),
        rep(IS, "Self::init(seed_extended, 2)", "Self::init(&seed_extended, 2)"),
        rep(IS, "Self::init(key, 1)", "Self::init(&key[..2], 1)"),
        rep(IS, "        Self::init(seed, 2)\n", "        Self::init(&seed, 2)\n"),
        rep(IS, "Ok(Self::init(seed, 2))", "Ok(Self::init(&seed, 2))")), ["C03", "C09", "C14"]),
    ("fire", "S4f xoshiro256++ gains a public set_state", rep(X + "xoshiro256plusplus.rs", "impl Xoshiro256PlusPlus {\n", "impl Xoshiro256PlusPlus {\n    /// Overwrite the state words.\n    pub fn set_state(&mut self, s: [u64; 4]) {\n        self.s = s;\n    }\n\n"), ["C08"]),
    ("fire", "S4f xoshiro256++ implements AsMut<[u64]>", rep(X + "xoshiro256plusplus.rs", "impl Xoshiro256PlusPlus {\n", "impl AsMut<[u64]> for Xoshiro256PlusPlus {\n    fn as_mut(&mut self) -> &mut [u64] {\n        &mut self.s\n    }\n}\n\nimpl Xoshiro256PlusPlus {\n"), ["C08"]),
    ("silent", "S4 xoshiro256++ gains advance2 (two steps)", rep(X + "xoshiro256plusplus.rs", "impl Xoshiro256PlusPlus {\n", "impl Xoshiro256PlusPlus {\n    /// Discard two outputs.\n    pub fn advance2(&mut self) {\n        self.next_u64();\n        self.next_u64();\n    }\n\n"), ["C08", "C07", "C14"]),
    ("silent", "S5 IsaacRng implements Iterator through next_u32", rep(IS, "impl RngCore for IsaacRng {", "impl Iterator for IsaacRng {\n    type Item = u32;\n\n    #[inline]\n    fn next(&mut self) -> Option<u32> {\n        Some(self.next_u32())\n    }\n}\n\nimpl RngCore for IsaacRng {"), ["C03", "C05", "C10", "C14"]),
    ("fire", "S5f IsaacRng gains skip_block() driving generate_and_set", rep(IS, "impl RngCore for IsaacRng {", "impl IsaacRng {\n    /// Drop the rest of the current block.\n    pub fn skip_block(&mut self) {\n        self.0.generate_and_set(1);\n    }\n}\n\nimpl RngCore for IsaacRng {"), ["C03"]),
    ("silent", "S5 Xoshiro256PlusPlus gains an inherent from_seed that forwards", rep(X + "xoshiro256plusplus.rs", "impl Xoshiro256PlusPlus {\n", "impl Xoshiro256PlusPlus {\n    /// Same as `SeedableRng::from_seed`.\n    pub fn from_seed(seed: [u8; 32]) -> Self {\n        <Self as SeedableRng>::from_seed(seed)\n    }\n\n"), ["C09"]),
    ("silent", "S5 JitterRng gains rounds() accessor", rep(J, "    pub fn set_rounds(&mut self, rounds: u8) {", "    pub fn rounds(&self) -> u8 {\n        self.rounds\n    }\n\n    /// Configures how many rounds are used to generate each 64-bit value.\n    pub fn set_rounds(&mut self, rounds: u8) {"), ["C16", "C12", "C14", "C17"]),
    ("silent", "S6 xoshiro256++ gains reseed() via from_seed", rep(X + "xoshiro256plusplus.rs", "impl Xoshiro256PlusPlus {\n", "impl Xoshiro256PlusPlus {\n    /// Start over from a new seed.\n    pub fn reseed(&mut self, seed: [u8; 32]) {\n        *self = Self::from_seed(seed);\n    }\n\n"), ["C08", "C07", "C14"]),
    ("silent", "S2 xoshiro256++ state accessor added", rep(X + "xoshiro256plusplus.rs", "impl Xoshiro256PlusPlus {\n", "impl Xoshiro256PlusPlus {\n    /// Number of state words.\n    pub fn state_words(&self) -> usize {\n        self.s.len()\n    }\n\n"), ["C14", "C19", "C18", "C10"]),
]


def run_control(kind, name, edit, checks):
    d = tempfile.mkdtemp(prefix="ctl-")
    res = {}
    try:
        subprocess.check_call(["rsync", "-a", "--exclude", "target", "--exclude", ".git", REPO + "/", d + "/"])
        edit(d)
        env = dict(os.environ)
        env["VERIF_REPO"] = d
        env["VERIF_EVID"] = os.path.join(d, "evid")
        for c in checks:
            p = subprocess.run([os.path.join(V, "check"), c], env=env, stdout=subprocess.PIPE, stderr=subprocess.STDOUT, text=True)
            viol = [l for l in p.stdout.splitlines() if l.startswith("VIOLATION")]
            detail = [l.strip() for l in p.stdout.splitlines() if l.startswith("  " + c)]
            res[c] = (p.returncode, len(viol), detail[:2])
    finally:
        shutil.rmtree(d, ignore_errors=True)
    return res


def main():
    from concurrent.futures import ThreadPoolExecutor
    pats = [a for a in sys.argv[1:] if not a.startswith("-j")]
    jobs = next((int(a[2:]) for a in sys.argv[1:] if a.startswith("-j")), 1)
    bad = 0
    t0 = time.time()
    todo = [c for c in CONTROLS if not pats or any(p in c[1] or p == c[0] for p in pats)]

    def one(c):
        kind, name, edit, checks = c
        try:
            return c, run_control(kind, name, edit, checks), None
        except Exception as e:
            return c, None, e
    with ThreadPoolExecutor(max_workers=jobs) as ex:
        for (kind, name, edit, checks), res, err in ex.map(one, todo):
            if err is not None:
                print("ERROR  %-6s %-50s %s" % (kind, name, err))
                bad += 1
                continue
            for c, (rc, nv, detail) in res.items():
                ok = (rc != 0 and nv > 0) if kind == "fire" else (rc == 0 and nv == 0)
                if not ok:
                    bad += 1
                print("%-5s %-6s %-52s %s rc=%d violations=%d %s" % ("ok" if ok else "WRONG", kind, name, c, rc, nv,
                                                                     (detail[0][:150] if detail and (not ok or kind == "fire") else "")), flush=True)
    print("controls done in %.0fs, %d unexpected outcome(s)" % (time.time() - t0, bad))
    return 1 if bad else 0


if __name__ == "__main__":
    sys.exit(main())
