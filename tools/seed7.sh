#!/bin/bash
# usage: seed7.sh <Cxx> <crate> <checks...>   -- collect a finished round-7 seed, drop its worktree, verify it and run the checks
ID=$1; CR=$2; shift 2
W=/tmp/seed7-$ID; O=/tmp/seed7-out/$ID
if [ -d $W/OUT ]; then mkdir -p $O; cp $W/OUT/patch.diff $W/OUT/demo.rs $W/OUT/notes.md $O/ 2>/dev/null; cp $W/OUT/PROPERTY.txt $O/; fi
[ -d $W ] && git -C /repo worktree remove --force $W
/verif/tools/seedverify.sh $O $CR/tests/demo_seed.rs "-p $CR --test demo_seed $EXTRA" "$@"
