#!/bin/sh
# usage: scratch.sh <dir> <patch>   -- scratch copy of /repo with a patch applied (for experiments; remove it afterwards)
rm -rf "$1"; mkdir -p "$1"; rsync -a --exclude target --exclude .git /repo/ "$1"/; P=$(readlink -f "$2"); (cd "$1" && patch -p1 -s < "$P") || echo "PATCH DOES NOT APPLY"
