#!/bin/bash
# usage: allseeds.sh [-jN]  -- every stored seeded change must be reported by the checks named in its meta.json (caught_by)
J=${1:--j3}; J=${J#-j}
cd /verif
ls -d seeded/*/ | xargs -P $J -I{} sh -c 'd={}; c=$(python3 -c "import json;print(\" \".join(json.load(open(\"$d/meta.json\"))[\"caught_by\"]))"); out=$(tools/patchcheck.sh $d/patch.diff $c 2>&1 | grep "^check" | tr "\n" " "); miss=$(echo "$out" | grep -o "check C[0-9]*: rc=0" | tr "\n" " "); if [ -n "$miss" ]; then echo "MISSED $d :: $out"; else echo "caught $d :: $out"; fi' | sort
