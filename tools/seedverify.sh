#!/bin/bash
# usage: seedverify.sh <src-dir-with patch.diff demo.rs> <demo-rel-path> "<cargo test args for demo>" <checks...>
# verifies a seeded change in a scratch copy: existing tests pass with it, demo fails with it and passes without, then runs checks.
SRC=$1; DEMOPATH=$2; DEMOCMD=$3; shift 3
D=$(mktemp -d /tmp/sv-XXXXXX)
rsync -a --exclude target --exclude .git /repo/ $D/
export CARGO_TARGET_DIR=$D/target CARGO_NET_OFFLINE=true
cd $D
# demo without the change
mkdir -p $(dirname $DEMOPATH); cp $SRC/demo.rs $DEMOPATH
if cargo test --offline $DEMOCMD >$D/demo_orig.log 2>&1; then echo "demo on original: PASS"; else echo "demo on original: FAIL (unexpected)"; tail -5 $D/demo_orig.log; fi
rm $DEMOPATH
if ! patch -p1 -s < $SRC/patch.diff; then echo "PATCH DOES NOT APPLY"; fi
if cargo test --workspace --offline >$D/suite.log 2>&1; then echo "existing suite with change: PASS"; else echo "existing suite with change: FAIL"; grep -E "FAILED|failed|error" $D/suite.log | head -5; fi
cp $SRC/demo.rs $DEMOPATH
if cargo test --offline $DEMOCMD >$D/demo_new.log 2>&1; then echo "demo with change: PASS (unexpected)"; else echo "demo with change: FAIL (as required)"; grep -E "^test .* FAILED|panicked" $D/demo_new.log | head -3; fi
rm $DEMOPATH
rm -rf $D/target
cd /verif
for c in "$@"; do
  VERIF_REPO=$D VERIF_EVID=$D/evid ./check $c > $D/check_$c.log 2>&1
  rc=$?
  nv=$(grep -c "^VIOLATION" $D/check_$c.log)
  echo "check $c: rc=$rc violations=$nv :: $(grep -A1 "^VIOLATION" $D/check_$c.log | grep -v "^VIOLATION" | grep -v "^--" | head -2 | cut -c1-260 | tr '\n' '|')"
done
rm -rf $D
