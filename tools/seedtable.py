#!/usr/bin/env python3
"""Regenerates the table of DESIGN.md section 10.5 from seeded/*/meta.json (between the table header and the first line
after the table)."""
import json, os, re

V = os.path.dirname(os.path.dirname(os.path.abspath(__file__)))


def row(d):
    m = json.load(open(os.path.join(V, "seeded", d, "meta.json")))
    esc = lambda s: s.replace("|", "\\|").replace("\n", " ")
    return "| `seeded/%s` | %s | %s | %s |" % (d, esc(m.get("change", "")), ", ".join(m.get("caught_by", [])), esc(m.get("history", "—")) or "—")


def main():
    p = os.path.join(V, "DESIGN.md")
    lines = open(p).read().split("\n")
    start = next(i for i, l in enumerate(lines) if l.startswith("| seed | change | caught by | history |"))
    end = start + 2
    while end < len(lines) and lines[end].startswith("|"):
        end += 1
    key = lambda d: (d[:3], {"": 0, "b": 1, "c": 2, "d": 3, "e": 4, "f": 5, "g": 6}.get(d[3:], 9))
    dirs = sorted((d for d in os.listdir(os.path.join(V, "seeded")) if os.path.exists(os.path.join(V, "seeded", d, "meta.json"))), key=key)
    lines[start + 2:end] = [row(d) for d in dirs]
    open(p, "w").write("\n".join(lines))
    print("%d rows" % len(dirs))


if __name__ == "__main__":
    main()
