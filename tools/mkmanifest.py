#!/usr/bin/env python3
"""regenerates /verif/MANIFEST.json from the table below (claimed checks) and properties.jsonl"""
import json, os
V = os.path.dirname(os.path.dirname(os.path.abspath(__file__)))
props = [json.loads(l) for l in open(os.path.join(V, "properties.jsonl"))]

TB = "rustc nightly (MIR, trait resolution, const eval); primitive table for core functions (vf/prims.py); CPython integers; reference transcriptions in vf/ref"

CLAIMED = {
 "C01": dict(cat="proof", tech="value numbering of MIR to GF(2)-affine/ring normal forms; identity with reference terms",
   text="Normal-form equality, on a fully symbolic state / seed, of every xoshiro-family native step (post-state and output word) and of from_seed's decode with the Blackman-Vigna reference; equality of normal forms is equality for all 2^64..2^512 states, and the statement's per-position claim is the induction over single steps.",
   note=TB + "; rand_core::le::read_u*_into summarised as LE decode (pinned by hash)", ref="4/C01"),
 "C04": dict(cat="proof", tech="value numbering of MIR; GF(2)-affine normal-form identity with xor128",
   text="Normal-form equality of XorShiftRng::next_u32 (post-state, returned word) and of from_seed's non-zero path with Marsaglia's xor128 on symbolic state/seed.",
   note=TB, ref="4/C04"),
 "C06": dict(cat="proof", tech="value numbering with constant-loop unrolling -> bit matrix; GF(2) polynomial algebra (Krylov solve, x^(2^k) mod chi)",
   text="The linear map M computed by each of the 24 jump/long_jump bodies is extracted from MIR and proved equal to T^(2^(n/2)) resp. T^(2^(3n/4)) for the step matrix T of the same type: M = p(T) is verified on a Krylov basis and p = x^(2^k) mod chi with chi primitive.",
   note=TB + "; primitivity of chi from C07", ref="4/C06"),
 "C07": dict(cat="proof", tech="bit-matrix extraction by value numbering; rank, Berlekamp-Massey minimal polynomial, primitivity test with certified factorisation of 2^n-1",
   text="For each of the 15 linear generator types the step is shown GF(2)-linear without constant term, of full rank, with a primitive characteristic polynomial of degree n; this is equivalent to the statement (single cycle of length 2^n-1 on the non-zero states).",
   note=TB + "; factor table of 2^512-1 re-verified with Pratt certificates on every run", ref="4/C07"),
}

checks = []
for p in props:
    pid = p["id"]
    if pid not in CLAIMED:
        continue
    c = CLAIMED[pid]
    checks.append({
        "property_id": pid,
        "quick_cmd": "./check %s --tier quick" % pid,
        "thorough_cmd": "./check %s --tier thorough" % pid,
        "evidence_file": "/verif/evidence/%s.json" % pid,
        "replay_cmd_template": "./check %s --replay {path}" % pid,
        "engine": "vf",
        "level_claimed": {"category": c["cat"], "text": c["text"], "design_ref": "DESIGN.md section " + c["ref"]},
        "level_note": c["note"],
        "technique": "static analysis: " + c["tech"],
    })
na = [{"property_id": p["id"], "reason": "checker under construction (DESIGN.md section 9); not claimed yet"} for p in props if p["id"] not in CLAIMED]
m = {
 "version": 1,
 "setup_cmd": "cd /verif/driver && CARGO_NET_OFFLINE=true cargo build --release --offline && cd /verif && python3 -m compileall -q vf",
 "hooks": {"guard": "rngs_verif", "enable": "none needed: the analysis reads private items from the compiler's tables; /repo carries no hooks",
           "baseline_off_cmd": "cd /repo && cargo test --workspace --no-fail-fast --offline", "source_commits": [], "add_only": True},
 "engines": [
   {"name": "mirfacts", "path": "driver/", "serves_properties": sorted(CLAIMED), "kind_free_text": "rustc_private driver: item tables + resolved MIR as JSON (RUSTC_WORKSPACE_WRAPPER under cargo +nightly check)"},
   {"name": "vf", "path": "vf/", "serves_properties": sorted(CLAIMED), "kind_free_text": "Python: MIR value numbering to algebraic normal forms, range analysis, GF(2) algebra, structural queries, reference tables"}],
 "checks": checks,
 "not_applicable": na,
 "notes": "Static analysis only (no code of /repo is executed). See DESIGN.md. Checks analyse /repo's working tree on every run (facts cached by content hash of the tree).",
}
json.dump(m, open(os.path.join(V, "MANIFEST.json"), "w"), indent=1)
print("claimed:", sorted(CLAIMED), "n/a:", len(na))
