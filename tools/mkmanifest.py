#!/usr/bin/env python3
"""regenerates /verif/MANIFEST.json from the table below (claimed checks) and properties.jsonl"""
import json, os
V = os.path.dirname(os.path.dirname(os.path.abspath(__file__)))
props = [json.loads(l) for l in open(os.path.join(V, "properties.jsonl"))]

TB = "rustc nightly (MIR, trait resolution, const eval); primitive table for core functions (vf/prims.py); CPython integers; reference transcriptions in vf/ref"

CLAIMED = {
 "C01": dict(cat="proof", tech="value numbering of MIR to GF(2)-affine/ring normal forms; identity with reference terms",
   text="Normal-form equality, on a fully symbolic state / seed, of every xoshiro-family native step (post-state and output word) and of from_seed's decode with the Blackman-Vigna reference; equality of normal forms is equality for all 2^64..2^512 states, and the statement's per-position claim is the induction over single steps.",
   note=TB + "; rand_core::le::read_u*_into summarised as LE decode (pinned by hash)", ref="4/C01"),
 "C04": dict(cat="proof", tech="value numbering of MIR; GF(2)-affine normal-form identity with xor128",
   text="Normal-form equality of XorShiftRng::next_u32 (post-state, returned word) and of from_seed's non-zero path with Marsaglia's xor128 on symbolic state/seed.",
   note=TB, ref="4/C04"),
 "C06": dict(cat="proof", tech="value numbering with constant-loop unrolling -> bit matrix; GF(2) polynomial algebra (Krylov solve, x^(2^k) mod chi)",
   text="The linear map M computed by each of the 24 jump/long_jump bodies is extracted from MIR and proved equal to T^(2^(n/2)) resp. T^(2^(3n/4)) for the step matrix T of the same type: M = p(T) is verified on a Krylov basis and p = x^(2^k) mod chi with chi primitive.",
   note=TB + "; primitivity of chi from C07", ref="4/C06"),
 "C07": dict(cat="proof", tech="bit-matrix extraction by value numbering; rank, Berlekamp-Massey minimal polynomial, primitivity test with certified factorisation of 2^n-1; matrix identity of the other word method with T or T^2 and of fill_bytes at constant lengths with T^k; every other &mut self method: linear bijection commuting with T, no public field, no &mut handed out",
   text="For each of the 15 linear generator types the step is shown GF(2)-linear without constant term, of full rank, with a primitive characteristic polynomial of degree n; this is equivalent to the statement (single cycle of length 2^n-1 on the non-zero states); the state map of the non-native word method is the matrix T resp. T^2, so every stepping operation moves along that cycle; fill_bytes on a destination of each constant length in the tier's range advances the state by T^k, k the number of native steps of C05's word table.",
   note=TB + "; factor table of 2^512-1 re-verified with Pratt certificates on every run", ref="4/C07"),
 "C05": dict(cat="other", tech="value numbering with the projected method kept as an opaque, state-threading call; identity with the projection table; bounded evaluation of every fill_bytes on constant-length destinations (rand_core's helper inlined); in-place evaluation of the word methods for bodies that do not call them",
   text="For each of the 20 generator types the three RngCore methods are value-numbered and compared (normal-form identity of returned value, final state, destination buffer, call count, absence of other effects) with the row of the projection table the property states: which half, which order, how many native calls, which delegate; fill_bytes of the xoshiro family, XorShiftRng and JitterRng is additionally evaluated for every length 0..=17 (thorough 0..=40) and compared byte for byte with the table row.",
   note=TB + "; a hand-written fill_bytes that is not a plain delegation is decided for the listed lengths only; BlockRng's refill behaviour is the dependency's", ref="4/C05"),
 "C08": dict(cat="other", tech="value numbering under path assumptions (zero / non-zero seed), GF(2) rank of the decode, bijection-chain recognition of SplitMix64's output, constant propagation of the zero-seed path, who-constructs query, compile-fail witness; who-may-mutate rule of C07 (R9)",
   text="from_seed of the 14 xoshiro types is shown to be ite(AllZero(whole seed), Self::seed_from_u64(0), bijective LE decode); seed_from_u64 is from_rng on SplitMix64{x}; SplitMix64's output is a bijection of its counter and PHI != 0; the all-zero seed constant-folds to a non-zero state; XorShiftRng maps the zero seed to 0x0BAD5EED x4; generator ADTs are constructed only by the seeding API.",
   note=TB + "; rand_core default from_rng/try_from_rng", ref="4/C08"),
 "C10": dict(cat="other", tech="value numbering of every Clone::clone and PartialEq::eq body on symbolic values; identity with the all-fields conjunction; dependence of BlockRngCore::generate on the old contents of its results buffer (atoms of the post-state)",
   text="Every Clone impl returns a value identical in every leaf; every == is exactly the conjunction of whole-leaf equalities over all fields (one reasoned exception: the == of a wrapper around rand_core's BlockRng/BlockRng64 may omit the buffer `results`, and only that).",
   note=TB + "; futures depend on fields only: C19", ref="4/C10"),
 "C11": dict(cat="other", tech="value numbering of the derive-generated serialize / visit_seq bodies and of isaac_array_serde with opaque (de)serializer; per-argument taint of opaque calls; call-site counts for visit_map; identity of every generated with-wrapper / newtype-visitor result with the unmodified result of one deserializer call (helpers inlined); element order of generated serialize wrappers",
   text="Field-complete writer, field-complete reader (no default/skip), same order, and agreement (length 256, order) of the hand-written 256-element array (de)serializer, decided on the serde configuration's facts for all 21 serializable types.",
   note=TB + "; serde_derive attribute semantics, rand_core's BlockRng derives, the wire format", ref="4/C11"),
 "C17": dict(cat="other", tech="taint analysis over value-numbered fmt bodies with trait objects followed through compiler-resolved vtables",
   text="For the 8 state-hiding types, every value that reaches a core formatting sink from Debug::fmt (following &dyn Debug into BlockRng's and the cores' own fmt) is collected; its symbol set must be empty (cores, XorShiftRng, JitterRng) or within {index, half_used} (BlockRng wrappers).",
   note=TB + "; core::fmt prints only what it is given", ref="4/C17"),
 "C18": dict(cat="other", tech="differential value numbering across build configurations, operations with data-dependent loops through their loop summaries; cfg-predicate allow-list scan; unsafe allow-list from HIR; float-type scan; scan for pointer-to-integer casts and address-inspecting calls",
   text="Every operation of every generator is value-numbered in each configuration (dev/rel x default/serde/std+log) on identical symbolic inputs and must give identical normal forms; all cfg predicates are in a frozen allow-list; no profile-dependent macro or predicate; unsafe sites equal the reasoned allow-list.",
   note=TB + "; compiler/LLVM correctness; endianness and pointer width outside the configuration set; overflow edges: C14", ref="4/C18"),
 "C19": dict(cat="other", tech="exhaustive enumeration over item tables and the resolved call graph; compiler-computed Freeze; type-level witness crate with compile-fail twins; scan of reachable bodies for pointer-to-integer casts and address-inspecting calls",
   text="Statics/thread-locals/interior-mutable consts are exactly the frozen set with frozen readers; transitive field types are plain data; no static, FFI, allocation or I/O is reachable from a generator operation; all generator types are Send+Sync+'static (witness crate), with twins that must fail (E0277, E0451).",
   note=TB + "; cargo check of the witness crate against /repo", ref="4/C19"),
 "C12": dict(cat="other", tech="value numbering of each Jitterentropy fragment with timer calls as numbered opaque readings; identity with the reference transcription; loop records (bounds, per-iteration effects, tick depth of the world token)",
   text="lfsr, random_loop_cnt(4), stuck, stir_pool are proved identical (normal forms) to the documented procedure; lfsr_time, memaccess, measure_jitter, gen_entropy, timer_stats, new_with_timer are pinned through call sequences, arguments, loop bounds and state effects; timer readings per fragment are counted on every path.",
   note=TB + "; composition of fragments into whole-call behaviour is the paper argument of DESIGN.md 4/C12", ref="4/C12"),
 "C13": dict(cat="proof", tech="abstract interpretation of test_timer (opaque readings, interval invariants with trip-count acceleration for the 400-probe loop); interval of the Ok value under the Ok path condition; identity of guard and counter-update terms",
   text="Under the Ok path condition the returned value's interval is within [1,128]; the table entries on the feasible index range and the formula (127+l)/l are shown sufficient (r*bitlen(mean) >= 128); the Ok/Err structure is exactly the documented chain of guards with the documented thresholds and counter predicates; set_rounds panics exactly on 0.",
   note=TB + "; interval reasoning of vf/prims.py and loop invariants of vf/loops.py; each timer reading is an arbitrary u64", ref="4/C13"),
 "C14": dict(cat="proof", tech="abstract interpretation of every API root on dev-profile MIR: constant folding, known bits, intervals with path assumptions, loop invariants (havoc + interval fixpoint + acceleration), inductive class invariant for Hc128Core",
   text="Every Assert terminator (overflow, bounds, division, shift) and library precondition reachable from any API root with unconstrained arguments is discharged; explicit panics are exactly the documented table; unknown callees are reported; the counter invariant of Hc128Core is re-proved at every exit.",
   note=TB + "; asserts inside rand_core's generic machinery are listed, not judged; platform clock unwrap excluded with reason", ref="4/C14"),
 "C15": dict(cat="proof", tech="who-writes query on JitterRng.data; GF(2) bit-matrix extraction of every pool update by value numbering (constant loops unrolled), the pool followed through loop summaries with pool-independence of every branch / continuation / exit condition, control dependence of loop variables on pool-dependent trip counts; rank",
   text="Each of the pool's writers is shown to map the old pool affinely with a rank-64 matrix (LFSR fold: also rank 64 in the time value; rotation; stir), or to store the value the collection just produced; where the pool is carried through a loop, the per-iteration update is one-to-one and the number of iterations does not depend on the pool.",
   note=TB, ref="4/C15"),
 "C16": dict(cat="other", tech="typestate by value numbering with gen_entropy as an opaque state-threading call; who-writes query; loop record of the rounds loop; bounded evaluation of the type's fill_bytes for constant lengths; exposure analysis over pairs of output calls; bounded sequence model (<= 3 calls, clone) that names only the field `data`; impl-table query (not Copy), call-graph query for public operations reaching gen_entropy or reading the pool, composition of set_rounds with the loop trip count",
   text="next_u32/next_u64/clone bookkeeping of the pending half is decided exactly; gen_entropy's rounds loop runs 0..rounds with at least one timer read per round; fill_bytes lengths 1..=12 (24 thorough) are evaluated; no collected bit reaches two output positions over any ordered pair of output calls; 431 call sequences follow the property's model call by call (outputs and number of collections); one known finding (fill_bytes of 1..=4 bytes consumes a pending half by design) is listed in known_findings.json.",
   note=TB, ref="4/C16"),
 "C02": dict(cat="other", tech="value numbering of generate for each of the 64 counter residues (counter = 1024q+16k, q symbolic) and of init on symbolic key/IV words; normal-form identity with the transcription of Wu's specification, look-ups as select terms; who-may-mutate query over every public &mut self method (value numbering with the RngCore surface kept opaque)",
   text="Every 16-word block, from every table state and every residue of the step counter, equals the specification's 16 keystream steps (results, table update, counter); the initial table equals the specification's expansion plus 1024 feedback steps for every key/IV (all 1024 words); from_seed decodes eight LE words.",
   note=TB + "; whole-keystream equality is the induction over blocks (BlockRng hands words out in order: dependency); sums above 48 monomials are canonical only up to association (DESIGN.md section 7)", ref="4/C02"),
 "C03": dict(cat="other", tech="value numbering of generate / init / from_seed / seed_from_u64 of both cores on symbolic state (256-word symbolic memory, data-dependent look-ups as select terms); normal-form identity with the transcription of rand.c / isaac64.c; who-may-mutate query over every public &mut self method (value numbering with the RngCore surface kept opaque)",
   text="One refill block from an arbitrary symbolic state equals one reference isaac()/isaac64() call in all 256 memory words, a, b, c and all 256 result slots (slot 255-i = i-th word); init equals randinit (constants re-derived from the golden ratio by the reference mixer); from_seed and seed_from_u64 equal randinit(TRUE)/one pass on the documented key layout.",
   note=TB + "; whole-stream equality is the induction over blocks; BlockRng/BlockRng64 order is the dependency's", ref="4/C03"),
 "C09": dict(cat="other", tech="value numbering of the seeding routes with rand_core's default from_rng and fill_bytes_via_next inlined for the constant seed length; identity with from_seed on the reference SplitMix64 byte stream; impl-table queries; sibling comparison of from_rng / try_from_rng; loop records of the redraw loops; whole-route comparison with the reference initialisation when the private helper between route and state has another shape; name-shadowing query on inherent functions with behavioural comparison against the shadowed trait method",
   text="xoshiro seed_from_u64(x) = from_seed(LE bytes of the reference SplitMix64 stream at x) for all 14 types; non-overriding impls and wrapper delegation are decided from the impl tables and call atoms; ISAAC seed_from_u64 / from_rng / try_from_rng key layout, byte counts, pass counts and error discipline; XorShiftRng redraw loops leave only with a non-zero block (or the source's error).",
   note=TB + "; rand_core's PCG32 seed_from_u64 default is the dependency's", ref="4/C09"),
}

checks = []
for p in props:
    pid = p["id"]
    if pid not in CLAIMED:
        continue
    c = CLAIMED[pid]
    checks.append({
        "property_id": pid,
        "quick_cmd": "./check %s --tier quick" % pid,
        "thorough_cmd": "./check %s --tier thorough" % pid,
        "evidence_file": "/verif/evidence/%s.json" % pid,
        "replay_cmd_template": "./check %s --replay {path}" % pid,
        "engine": "vf",
        "level_claimed": {"category": c["cat"], "text": c["text"], "design_ref": "DESIGN.md section " + c["ref"]},
        "level_note": c["note"],
        "technique": "static analysis: " + c["tech"],
    })
na = [{"property_id": p["id"], "reason": "checker under construction (DESIGN.md section 9); not claimed yet"} for p in props if p["id"] not in CLAIMED]
m = {
 "version": 1,
 "setup_cmd": "cd /verif/driver && CARGO_NET_OFFLINE=true cargo build --release --offline && cd /verif && python3 -m compileall -q vf",
 "hooks": {"guard": "rngs_verif", "enable": "none needed: the analysis reads private items from the compiler's tables; /repo carries no hooks",
           "baseline_off_cmd": "cd /repo && cargo test --workspace --no-fail-fast --offline", "source_commits": [], "add_only": True},
 "engines": [
   {"name": "mirfacts", "path": "driver/", "serves_properties": sorted(CLAIMED), "kind_free_text": "rustc_private driver: item tables + resolved MIR as JSON (RUSTC_WORKSPACE_WRAPPER under cargo +nightly check)"},
   {"name": "vf", "path": "vf/", "serves_properties": sorted(CLAIMED), "kind_free_text": "Python: MIR value numbering to algebraic normal forms, range analysis, GF(2) algebra, structural queries, reference tables"}],
 "checks": checks,
 "not_applicable": na,
 "notes": "Static analysis only (no code of /repo is executed). See DESIGN.md. Checks analyse /repo's working tree on every run (facts cached by content hash of the tree).",
}
json.dump(m, open(os.path.join(V, "MANIFEST.json"), "w"), indent=1)
print("claimed:", sorted(CLAIMED), "n/a:", len(na))
