#!/usr/bin/env python3
"""regenerates /verif/MANIFEST.json from the table below (claimed checks) and properties.jsonl"""
import json, os
V = os.path.dirname(os.path.dirname(os.path.abspath(__file__)))
props = [json.loads(l) for l in open(os.path.join(V, "properties.jsonl"))]

TB = "rustc nightly (MIR, trait resolution, const eval); primitive table for core functions (vf/prims.py); CPython integers; reference transcriptions in vf/ref"

CLAIMED = {
 "C01": dict(cat="proof", tech="value numbering of MIR to GF(2)-affine/ring normal forms; identity with reference terms",
   text="Normal-form equality, on a fully symbolic state / seed, of every xoshiro-family native step (post-state and output word) and of from_seed's decode with the Blackman-Vigna reference; equality of normal forms is equality for all 2^64..2^512 states, and the statement's per-position claim is the induction over single steps.",
   note=TB + "; rand_core::le::read_u*_into summarised as LE decode (pinned by hash)", ref="4/C01"),
 "C04": dict(cat="proof", tech="value numbering of MIR; GF(2)-affine normal-form identity with xor128",
   text="Normal-form equality of XorShiftRng::next_u32 (post-state, returned word) and of from_seed's non-zero path with Marsaglia's xor128 on symbolic state/seed.",
   note=TB, ref="4/C04"),
 "C06": dict(cat="proof", tech="value numbering with constant-loop unrolling -> bit matrix; GF(2) polynomial algebra (Krylov solve, x^(2^k) mod chi)",
   text="The linear map M computed by each of the 24 jump/long_jump bodies is extracted from MIR and proved equal to T^(2^(n/2)) resp. T^(2^(3n/4)) for the step matrix T of the same type: M = p(T) is verified on a Krylov basis and p = x^(2^k) mod chi with chi primitive.",
   note=TB + "; primitivity of chi from C07", ref="4/C06"),
 "C07": dict(cat="proof", tech="bit-matrix extraction by value numbering; rank, Berlekamp-Massey minimal polynomial, primitivity test with certified factorisation of 2^n-1",
   text="For each of the 15 linear generator types the step is shown GF(2)-linear without constant term, of full rank, with a primitive characteristic polynomial of degree n; this is equivalent to the statement (single cycle of length 2^n-1 on the non-zero states).",
   note=TB + "; factor table of 2^512-1 re-verified with Pratt certificates on every run", ref="4/C07"),
 "C05": dict(cat="other", tech="value numbering with the projected method kept as an opaque, state-threading call; identity with the projection table",
   text="For each of the 20 generator types the three RngCore methods are value-numbered and compared (normal-form identity of returned value, final state, destination buffer, call count, absence of other effects) with the row of the projection table the property states: which half, which order, how many native calls, which delegate.",
   note=TB + "; rand_core's fill_bytes_via_next / BlockRng semantics for odd lengths and refills are the dependency's (source pinned by hash)", ref="4/C05"),
 "C08": dict(cat="other", tech="value numbering under path assumptions (zero / non-zero seed), GF(2) rank of the decode, bijection-chain recognition of SplitMix64's output, constant propagation of the zero-seed path, who-constructs query, compile-fail witness",
   text="from_seed of the 14 xoshiro types is shown to be ite(AllZero(whole seed), Self::seed_from_u64(0), bijective LE decode); seed_from_u64 is from_rng on SplitMix64{x}; SplitMix64's output is a bijection of its counter and PHI != 0; the all-zero seed constant-folds to a non-zero state; XorShiftRng maps the zero seed to 0x0BAD5EED x4; generator ADTs are constructed only by the seeding API.",
   note=TB + "; rand_core default from_rng/try_from_rng", ref="4/C08"),
 "C10": dict(cat="other", tech="value numbering of every Clone::clone and PartialEq::eq body on symbolic values; identity with the all-fields conjunction",
   text="Every Clone impl returns a value identical in every leaf; every == is exactly the conjunction of whole-leaf equalities over all fields (one frozen, reasoned exception: Hc128Rng omits BlockRng.results).",
   note=TB + "; futures depend on fields only: C19", ref="4/C10"),
 "C11": dict(cat="other", tech="value numbering of the derive-generated serialize / visit_seq bodies and of isaac_array_serde with opaque (de)serializer; per-argument taint of opaque calls; call-site counts for visit_map",
   text="Field-complete writer, field-complete reader (no default/skip), same order, and agreement (length 256, order) of the hand-written 256-element array (de)serializer, decided on the serde configuration's facts for all 21 serializable types.",
   note=TB + "; serde_derive attribute semantics, rand_core's BlockRng derives, the wire format", ref="4/C11"),
 "C17": dict(cat="other", tech="taint analysis over value-numbered fmt bodies with trait objects followed through compiler-resolved vtables",
   text="For the 8 state-hiding types, every value that reaches a core formatting sink from Debug::fmt (following &dyn Debug into BlockRng's and the cores' own fmt) is collected; its symbol set must be empty (cores, XorShiftRng, JitterRng) or within {index, half_used} (BlockRng wrappers).",
   note=TB + "; core::fmt prints only what it is given", ref="4/C17"),
 "C18": dict(cat="other", tech="differential value numbering across build configurations; cfg-predicate allow-list scan; unsafe allow-list from HIR; float-type scan",
   text="Every operation of every generator is value-numbered in each configuration (dev/rel x default/serde/std+log) on identical symbolic inputs and must give identical normal forms; all cfg predicates are in a frozen allow-list; no profile-dependent macro or predicate; unsafe sites equal the reasoned allow-list.",
   note=TB + "; compiler/LLVM correctness; endianness and pointer width outside the configuration set; overflow edges: C14", ref="4/C18"),
 "C19": dict(cat="other", tech="exhaustive enumeration over item tables and the resolved call graph; compiler-computed Freeze; type-level witness crate with compile-fail twins",
   text="Statics/thread-locals/interior-mutable consts are exactly the frozen set with frozen readers; transitive field types are plain data; no static, FFI, allocation or I/O is reachable from a generator operation; all generator types are Send+Sync+'static (witness crate), with twins that must fail (E0277, E0451).",
   note=TB + "; cargo check of the witness crate against /repo", ref="4/C19"),
}

checks = []
for p in props:
    pid = p["id"]
    if pid not in CLAIMED:
        continue
    c = CLAIMED[pid]
    checks.append({
        "property_id": pid,
        "quick_cmd": "./check %s --tier quick" % pid,
        "thorough_cmd": "./check %s --tier thorough" % pid,
        "evidence_file": "/verif/evidence/%s.json" % pid,
        "replay_cmd_template": "./check %s --replay {path}" % pid,
        "engine": "vf",
        "level_claimed": {"category": c["cat"], "text": c["text"], "design_ref": "DESIGN.md section " + c["ref"]},
        "level_note": c["note"],
        "technique": "static analysis: " + c["tech"],
    })
na = [{"property_id": p["id"], "reason": "checker under construction (DESIGN.md section 9); not claimed yet"} for p in props if p["id"] not in CLAIMED]
m = {
 "version": 1,
 "setup_cmd": "cd /verif/driver && CARGO_NET_OFFLINE=true cargo build --release --offline && cd /verif && python3 -m compileall -q vf",
 "hooks": {"guard": "rngs_verif", "enable": "none needed: the analysis reads private items from the compiler's tables; /repo carries no hooks",
           "baseline_off_cmd": "cd /repo && cargo test --workspace --no-fail-fast --offline", "source_commits": [], "add_only": True},
 "engines": [
   {"name": "mirfacts", "path": "driver/", "serves_properties": sorted(CLAIMED), "kind_free_text": "rustc_private driver: item tables + resolved MIR as JSON (RUSTC_WORKSPACE_WRAPPER under cargo +nightly check)"},
   {"name": "vf", "path": "vf/", "serves_properties": sorted(CLAIMED), "kind_free_text": "Python: MIR value numbering to algebraic normal forms, range analysis, GF(2) algebra, structural queries, reference tables"}],
 "checks": checks,
 "not_applicable": na,
 "notes": "Static analysis only (no code of /repo is executed). See DESIGN.md. Checks analyse /repo's working tree on every run (facts cached by content hash of the tree).",
}
json.dump(m, open(os.path.join(V, "MANIFEST.json"), "w"), indent=1)
print("claimed:", sorted(CLAIMED), "n/a:", len(na))
