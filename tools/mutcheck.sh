#!/bin/sh
# usage: mutcheck.sh '<sed-expr>' <file-relative-to-repo> <check ids...>
# applies a sed edit to a scratch copy of /repo (outside /repo and /verif), runs the checks on it, removes the copy.
EXPR="$1"; FILE="$2"; shift 2
D=$(mktemp -d /tmp/mut-XXXXXX)
rsync -a --exclude target --exclude .git /repo/ $D/
if [ -n "$EXPR" ]; then
  sed -i "$EXPR" $D/$FILE
  if diff -q /repo/$FILE $D/$FILE >/dev/null; then echo "MUTATION DID NOT CHANGE $FILE"; fi
fi
rc=0
for c in "$@"; do
  VERIF_REPO=$D VERIF_EVID=$D/evid /verif/check $c || rc=1
done
rm -rf $D
exit $rc
