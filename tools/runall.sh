#!/bin/sh
# usage: runall.sh [quick|thorough]  -- every check on /repo, in parallel; prints the summary line of each
TIER=${1:-quick}
cd /verif
ids=$(seq -f "C%02g" 1 19)
echo $ids | tr ' ' '\n' | xargs -P 8 -I{} sh -c './check {} --tier '$TIER' > /tmp/runall_{}.log 2>&1; echo "{} rc=$? $(grep -c ^VIOLATION /tmp/runall_{}.log) viol :: $(tail -1 /tmp/runall_{}.log)"' | sort
rm -f /tmp/runall_C*.log
