#!/bin/sh
# usage: patchcheck.sh <patch.diff> <check ids...>
# applies a patch to a scratch copy of /repo (outside /repo and /verif), runs the checks on it, removes the copy.
PATCH=$(readlink -f "$1"); shift
D=$(mktemp -d /tmp/pc-XXXXXX)
rsync -a --exclude target --exclude .git /repo/ $D/
(cd $D && patch -p1 -s < "$PATCH") || echo "PATCH DOES NOT APPLY"
rc=0
for c in "$@"; do
  VERIF_REPO=$D VERIF_EVID=$D/evid /verif/check $c > $D/out_$c.log 2>&1; r=$?
  [ $r -ne 0 ] && rc=1
  echo "check $c: rc=$r violations=$(grep -c '^VIOLATION' $D/out_$c.log)"
  grep -A1 '^VIOLATION' $D/out_$c.log | grep -v '^VIOLATION' | grep -v '^--' | head -4 | cut -c1-300
done
rm -rf $D
exit $rc
