#!/bin/bash
# usage: refcheck.sh <patch.diff> [check ids...]  -- a behaviour-preserving patch: every check must stay silent.
# applies the patch to a scratch copy of /repo, runs the checks (default: all 19) in parallel on it, prints the ones that alarm.
PATCH=$1; shift
IDS="$@"; [ -z "$IDS" ] && IDS=$(seq -f "C%02g" 1 19)
D=$(mktemp -d /tmp/rc-XXXXXX)
rsync -a --exclude target --exclude .git /repo/ $D/
if ! (cd $D && patch -p1 -s < "$PATCH"); then echo "PATCH DOES NOT APPLY: $PATCH"; rm -rf $D; exit 2; fi
export VERIF_REPO=$D VERIF_EVID=$D/evid
cd /verif
echo $IDS | tr ' ' '\n' | xargs -P 7 -I{} sh -c './check {} > '$D'/out_{}.log 2>&1; echo "{} $?" >> '$D'/rcs'
bad=0
for c in $IDS; do
  rc=$(grep "^$c " $D/rcs | cut -d' ' -f2)
  if [ "$rc" != "0" ]; then bad=1; echo "ALARM $c rc=$rc :: $(grep -A1 '^VIOLATION' $D/out_$c.log | grep -v '^VIOLATION' | grep -v '^--' | head -3 | cut -c1-330 | tr '\n' '|')"; [ "$rc" != "1" ] && tail -3 $D/out_$c.log; fi
done
[ $bad = 0 ] && echo "silent: $(basename $(dirname $PATCH))/$(basename $PATCH)"
rm -rf $D
exit $bad
